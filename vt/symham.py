"""Engine S (C06): the chain-based model constructors are executed *natively with symbolic parameters* (sympy
Symbols for J, D, h, t, U, mu) up to the call of `_local_opchains_to_mpo`, which is intercepted.  From the captured
local operator chains:
  (1) every chain coefficient is a homogeneous linear form in the parameters (exact, sympy);
  (2) for each parameter basis vector the operator denoted by the shifted chains on L = 1, 2, 3 sites equals the
      independent textbook reference (vt/runtime/h_ham.py) -- by linearity in the parameters on both sides this is the
      identity *for all parameter values*, and for nearest-neighbour chains L = 1, 2 determine the on-site and the bond
      term, hence every L (given the shift loop and the compiler, which are checked elsewhere);
  (3) every local operator shifts the physical charge by the difference of the chain's bond charges (exact integers):
      the premise of block sparsity of the compiled MPO;
  (4) the local terms are Hermitian for real parameters.
Bose-Hubbard has an unbounded local dimension d: checked for d <= 6 (bounded in d, stated as such)."""
import importlib, os, sys, time
import numpy as np
from . import loader
from .contract import Verdict


def _load_pytenet():
    root = loader.repo_root()
    if root not in sys.path:
        sys.path.insert(0, root)
    for m in [k for k in sys.modules if k == 'pytenet' or k.startswith('pytenet.')]:
        if not getattr(sys.modules[m], '__file__', '').startswith(root):
            del sys.modules[m]
    return importlib.import_module('pytenet'), importlib.import_module('pytenet.hamiltonian')


def capture(ham, ctor, args):
    box = {}
    orig = ham._local_opchains_to_mpo
    def rec(qd, lopchains, size, opmap, oid_identity):
        box.update(qd=list(qd), chains=list(lopchains), size=size, opmap=opmap, oid=oid_identity)
        raise _Captured()
    ham._local_opchains_to_mpo = rec
    try:
        try:
            getattr(ham, ctor)(*args)
        except _Captured:
            pass
    finally:
        ham._local_opchains_to_mpo = orig
    return box

class _Captured(Exception):
    pass


def dense_of_chains(chains, opmap, oid, L, coeff_of):
    d = np.asarray(opmap[oid]).shape[0]
    H = np.zeros((d ** L, d ** L), dtype=complex)
    for ch in chains:
        n = len(ch.oids)
        for i in range(L - n + 1):
            ops = [np.asarray(opmap[oid])] * i + [np.asarray(opmap[o]) for o in ch.oids] + [np.asarray(opmap[oid])] * (L - i - n)
            m = np.ones((1, 1))
            for o in ops:
                m = np.kron(m, o)
            H = H + coeff_of(ch) * m
    return H


def verify(prop='C06'):
    import sympy
    from .runtime import h_ham
    out = []
    ptn, ham = _load_pytenet()
    J, D, h, t, U, mu = sympy.symbols('J D h t U mu', real=True)
    models = [
        ('heisenberg_xxz_mpo', (2, J, D, h), (J, D, h), lambda L, p: h_ham.xxz_ref(L, *p, two_s=1)),
        ('heisenberg_xxz_spin1_mpo', (2, J, D, h), (J, D, h), lambda L, p: h_ham.xxz_ref(L, *p, two_s=2)),
        ('fermi_hubbard_mpo', (2, t, U, mu), (t, U, mu), lambda L, p: h_ham.fermi_hubbard_ref(L, *p)),
    ]
    for dd in (1, 2, 3, 4, 5, 6):
        models.append((f'bose_hubbard_mpo[d={dd}]', (dd, 2, t, U, mu), (t, U, mu), lambda L, p, dd=dd: h_ham.bose_hubbard_ref(dd, L, *p)))
    for name, args, params, ref in models:
        ctor = name.split('[')[0]
        fn = f'hamiltonian.{ctor}'
        t0 = time.time()
        try:
            box = capture(ham, ctor, args)
            if not box:
                out.append(Verdict(f'{name}: local chains captured', 'S', 'undecided', 'constructor no longer calls _local_opchains_to_mpo (contract stale)', 0, fn, 'ensures', 'sympy'))
                continue
        except Exception as e:
            out.append(Verdict(f'{name}: symbolic execution', 'S', 'undecided', f'{type(e).__name__}: {e}', 0, fn, 'ensures', 'sympy'))
            continue
        chains, opmap, oid, qd = box['chains'], box['opmap'], box['oid'], box['qd']
        # (1) linear homogeneous coefficients
        lin = True; detail = ''
        for ch in chains:
            c = sympy.sympify(ch.coeff)
            try:
                poly = sympy.Poly(c, *params)
                if poly.total_degree() > 1:
                    lin = False; detail = f'coefficient {c} is not a linear form'
                if c.subs({p: 0 for p in params}) != 0:
                    lin = False; detail = f'coefficient {c} has a constant term'
            except Exception as e:
                lin = False; detail = f'coefficient {c}: {e}'
        out.append(Verdict(f'{name}: chain coefficients are linear forms in the parameters', 'S', 'discharged' if lin else 'refuted',
                           detail or f'{len(chains)} chains', 0, fn, 'ensures', 'sympy'))
        # (2) identity at the parameter basis points for L = 1, 2, 3
        ok = True; worst = 0.0; where = ''
        for k, pk in enumerate(params):
            point = [1.0 if j == k else 0.0 for j in range(len(params))]
            sub = dict(zip(params, point))
            for L in (1, 2, 3):
                Hc = dense_of_chains(chains, opmap, oid, L, lambda ch: complex(sympy.sympify(ch.coeff).subs(sub)))
                Hr = np.asarray(ref(L, point), dtype=complex)
                if Hc.shape != Hr.shape:
                    ok = False; where = f'shape {Hc.shape} vs {Hr.shape} at L={L}'; break
                err = float(np.linalg.norm(Hc - Hr))
                worst = max(worst, err)
                if err > 1e-12 * max(1.0, float(np.linalg.norm(Hr))):
                    ok = False; where = f'd/d{pk} at L={L}: |code - textbook| = {err:.3e}'
        v = Verdict(f'{name}: local terms equal the textbook terms for every parameter value (linearity + basis points, L=1,2,3)', 'S',
                    'discharged' if ok else 'refuted', where + (' (needs native confirmation)' if not ok else f'max deviation {worst:.1e}'), 0, fn, 'ensures', 'sympy+numpy')
        v.confirm = [ctor]
        out.append(v)
        # (3) charge table
        okq = True; wq = ''
        for ch in chains:
            for pos, o in enumerate(ch.oids):
                M = np.asarray(opmap[o]); q0, q1 = ch.qnums[pos], ch.qnums[pos + 1]
                for s_ in range(M.shape[0]):
                    for t_ in range(M.shape[1]):
                        if M[s_, t_] != 0 and qd[s_] - qd[t_] + q0 - q1 != 0:
                            okq = False; wq = f'operator {int(o)} entry ({s_},{t_}) violates qd[s]-qd[t]+{q0}-{q1}==0'
        v = Verdict(f'{name}: every local operator shifts the charge as its chain declares', 'S', 'discharged' if okq else 'refuted',
                    wq + (' (needs native confirmation)' if not okq else ''), 0, fn, 'ensures', 'exact integers')
        v.confirm = [ctor]
        out.append(v)
        # (4) Hermiticity of the local terms for real parameters
        okh = True
        for k, pk in enumerate(params):
            sub = dict(zip(params, [1.0 if j == k else 0.0 for j in range(len(params))]))
            H2 = dense_of_chains(chains, opmap, oid, 2, lambda ch: complex(sympy.sympify(ch.coeff).subs(sub)))
            if np.linalg.norm(H2 - H2.conj().T) > 1e-12 * max(1.0, np.linalg.norm(H2)):
                okh = False
        v = Verdict(f'{name}: local terms Hermitian for real parameters', 'S', 'discharged' if okh else 'refuted',
                    '' if okh else '(needs native confirmation)', 0, fn, 'ensures', 'numpy')
        v.confirm = [ctor]
        out.append(v)
        dt = time.time() - t0
        for vv in out[-4:]:
            vv.seconds = dt / 4
    return out


# ---- molecular Hamiltonians (C07): optimized construction with symbolic coefficient tensors ---------------------------

def capture_opchains(ham, ctor, args, kwargs):
    """run the real constructor until it calls OpGraph.from_opchains; return (chains, length, oid_identity)"""
    box = {}
    OG = ham.OpGraph
    orig = OG.__dict__['from_opchains']
    def rec(cls, chains, length, oid_identity):
        box.update(chains=list(chains), L=length, oid=oid_identity)
        raise _Captured()
    OG.from_opchains = classmethod(rec)
    try:
        try:
            getattr(ham, ctor)(*args, **kwargs)
        except _Captured:
            pass
    finally:
        OG.from_opchains = orig
    return box


def verify_molecular():
    import sympy
    from .runtime import h_ham
    out = []
    ptn, ham = _load_pytenet()
    cases = [('molecular_hamiltonian_mpo', L, ham._molecular_hamiltonian_generate_operator_map, h_ham.molecular_ref, 2) for L in (1, 2, 3, 4)] + \
            [('spin_molecular_hamiltonian_mpo', L, ham._spin_molecular_hamiltonian_generate_operator_map, h_ham.spin_molecular_ref, 4) for L in (1, 2, 3)]
    for ctor, L, opmap_f, ref, dloc in cases:
        fn = f'hamiltonian.{ctor}'
        t0 = time.time()
        name = f'{ctor}[optimize=True, L={L}]'
        try:
            tsym = np.empty((L, L), dtype=object); vsym = np.empty((L, L, L, L), dtype=object)
            syms = []
            for i in range(L):
                for j in range(L):
                    tsym[i, j] = sympy.Symbol(f't_{i}_{j}'); syms.append(('t', (i, j), tsym[i, j]))
            for idx in np.ndindex(L, L, L, L):
                vsym[idx] = sympy.Symbol('v_' + '_'.join(map(str, idx))); syms.append(('v', idx, vsym[idx]))
            box = capture_opchains(ham, ctor, (tsym, vsym), dict(optimize=True))
            if not box:
                out.append(Verdict(f'{name}: chains captured', 'S', 'undecided', 'constructor no longer calls OpGraph.from_opchains (contract stale)', 0, fn, 'ensures', 'sympy'))
                continue
            chains, oid = box['chains'], box['oid']
            opmap = opmap_f()
            allsyms = [s for _, _, s in syms]
            # (1) coefficients are homogeneous linear forms in the coefficient-tensor entries
            lin = True; why = ''
            coeffs = []
            for ch in chains:
                c = sympy.expand(sympy.sympify(ch.coeff))
                coeffs.append(c)
                if c == 0:
                    continue
                poly = sympy.Poly(c, *c.free_symbols) if c.free_symbols else None
                if poly is None or poly.total_degree() > 1 or c.subs({s: 0 for s in c.free_symbols}) != 0:
                    lin = False; why = f'coefficient {c} is not a homogeneous linear form'
            out.append(Verdict(f'{name}: chain coefficients are linear forms in (tkin, vint)', 'S', 'discharged' if lin else 'refuted', why or f'{len(chains)} chains', 0, fn, 'ensures', 'sympy'))
            # (2) equality with the second-quantized reference at every basis tensor  =>  for all coefficient tensors
            ok = True; worst = 0.0; where = ''
            dim = dloc ** L
            Id = np.asarray(opmap[oid])
            # dense matrix of every chain word once
            words = []
            for ch in chains:
                ops = [Id] * ch.istart + [np.asarray(opmap[o]) for o in ch.oids] + [Id] * (L - ch.istart - len(ch.oids))
                m = np.ones((1, 1))
                for o in ops:
                    m = np.kron(m, o)
                words.append(m)
            for kind, idx, s in syms:
                t = np.zeros((L, L)); v = np.zeros((L, L, L, L))
                if kind == 't':
                    t[idx] = 1.0
                else:
                    v[idx] = 1.0
                H = np.zeros((dim, dim), dtype=complex)
                for c, m in zip(coeffs, words):
                    if c != 0 and s in c.free_symbols:
                        H = H + complex(c.coeff(s)) * m
                Hr = np.asarray(ref(t, v), dtype=complex)
                err = float(np.linalg.norm(H - Hr))
                worst = max(worst, err)
                if err > 1e-12 * max(1.0, float(np.linalg.norm(Hr))):
                    ok = False; where = f'd/d{s}: |chains - second-quantized formula| = {err:.3e}'
                    break
            v_ = Verdict(f'{name}: sum of the chains equals the second-quantized formula for every coefficient tensor (linearity + all {len(syms)} basis tensors)', 'S',
                         'discharged' if ok else 'refuted', where + (' (needs native confirmation)' if not ok else f'max deviation {worst:.1e}'), 0, fn, 'ensures', 'sympy+numpy')
            v_.confirm = [ctor]
            out.append(v_)
        except Exception as e:
            out.append(Verdict(f'{name}: symbolic execution', 'S', 'undecided', f'{type(e).__name__}: {e}', 0, fn, 'ensures', 'sympy'))
        dt = time.time() - t0
        for vv in out[-2:]:
            vv.seconds = dt / 2
    return out


# ---- Ising (automaton) and linear fermionic operators (hand-built graph) with symbolic parameters ---------------------

def _num(c, sub):
    import sympy
    return complex(sympy.sympify(c).subs(sub))


def automaton_dense(autop, L, opmap, sub):
    """operator denoted by an operator state automaton unrolled to L sites (own forward evaluation)"""
    d = np.asarray(next(iter(opmap.values()))).shape[0]
    cur = {autop.nid_terminal[0]: np.ones((1, 1), dtype=complex)}
    for i in range(L):
        nxt = {}
        for e in autop.edges.values():
            act = e.active(i) if callable(e.active) else e.active
            if not act or e.nids[0] not in cur:
                continue
            opics = e.opics(i) if callable(e.opics) else e.opics
            loc = sum(_num(c, sub) * np.asarray(opmap[o], dtype=complex) for o, c in opics)
            m = np.kron(cur[e.nids[0]], loc)
            nxt[e.nids[1]] = nxt.get(e.nids[1], 0) + m
        cur = nxt
    return cur.get(autop.nid_terminal[1], np.zeros((d ** L, d ** L), dtype=complex))


def graph_dense(graph, opmap, sub):
    memo = {}
    def rec(nid):
        if nid == graph.nid_terminal[1]:
            return np.ones((1, 1), dtype=complex)
        if nid in memo:
            return memo[nid]
        tot = 0
        for eid in graph.nodes[nid].eids[1]:
            e = graph.edges[eid]
            loc = sum(_num(c, sub) * np.asarray(opmap[o], dtype=complex) for o, c in e.opics)
            tot = tot + np.kron(loc, rec(e.nids[1]))
        memo[nid] = tot
        return tot
    return rec(graph.nid_terminal[0])


def verify_graph_models():
    import sympy
    from .runtime import h_ham
    out = []
    ptn, ham = _load_pytenet()
    # ---- Ising: intercept OpGraph.from_automaton
    J, h, g = sympy.symbols('J h g', real=True)
    fn = 'hamiltonian.ising_mpo'
    t0 = time.time()
    try:
        box = {}
        OG = ham.OpGraph
        orig = OG.__dict__['from_automaton']
        def rec(cls, autop, length):
            box.update(autop=autop, L=length); raise _Captured()
        OG.from_automaton = classmethod(rec)
        try:
            try:
                ham.ising_mpo(3, J, h, g)
            except _Captured:
                pass
        finally:
            OG.from_automaton = orig
        if not box:
            out.append(Verdict('ising_mpo: automaton captured', 'S', 'undecided', 'constructor no longer calls OpGraph.from_automaton', 0, fn, 'ensures', 'sympy'))
        else:
            autop = box['autop']
            opmap = {0: np.identity(2), 1: np.array([[1., 0.], [0., -1.]]), 2: np.array([[0., 1.], [1., 0.]])}     # OID.I, OID.Z, OID.X of the constructor
            lin = all(sympy.Poly(sympy.sympify(c), J, h, g).total_degree() <= 1 for e in autop.edges.values() for _, c in (e.opics if not callable(e.opics) else []))
            prod_ok = True
            ok = True; where = ''; worst = 0.0
            # the operator is multilinear in the edge coefficients; it is *linear* in (J, h, g) iff no path multiplies two parameters:
            # checked at the basis points and at one generic point (J, h, g) = (2, 3, 5) against linearity
            pts = [(1, 0, 0), (0, 1, 0), (0, 0, 1), (2, 3, 5)]
            for L in (1, 2, 3, 4):
                vals = {}
                for p in pts:
                    sub = {J: p[0], h: p[1], g: p[2]}
                    Hc = automaton_dense(autop, L, opmap, sub)
                    Hr = np.asarray(h_ham.ising_ref(L, *[float(x) for x in p]), dtype=complex)
                    err = float(np.linalg.norm(Hc - Hr)); worst = max(worst, err)
                    vals[p] = Hc
                    if err > 1e-12 * max(1.0, float(np.linalg.norm(Hr))):
                        ok = False; where = f'L={L}, (J,h,g)={p}: |automaton - textbook| = {err:.3e}'
                if np.linalg.norm(vals[(2, 3, 5)] - (2 * vals[(1, 0, 0)] + 3 * vals[(0, 1, 0)] + 5 * vals[(0, 0, 1)])) > 1e-12:
                    prod_ok = False
            out.append(Verdict('ising_mpo: automaton edge coefficients are linear forms and no path multiplies two parameters', 'S',
                               'discharged' if lin and prod_ok else 'refuted', '', 0, fn, 'ensures', 'sympy'))
            v = Verdict('ising_mpo: unrolled automaton equals sum J ZZ + h Z + g X for every (J, h, g) (linearity + basis points, L=1..4)', 'S',
                        'discharged' if ok else 'refuted', where + (' (needs native confirmation)' if not ok else f'max deviation {worst:.1e}'), 0, fn, 'ensures', 'sympy+numpy')
            v.confirm = ['ising_mpo']
            out.append(v)
    except Exception as e:
        out.append(Verdict('ising_mpo: symbolic execution', 'S', 'undecided', f'{type(e).__name__}: {e}', 0, fn, 'ensures', 'sympy'))
    for vv in out:
        vv.seconds = (time.time() - t0) / max(1, len(out))
    # ---- linear fermionic operators: intercept MPO.from_opgraph
    fn = 'hamiltonian.linear_fermionic_mpo'
    n0 = len(out); t0 = time.time()
    try:
        for ftype in ('c', 'a', 'create', 'creation'):
            for L in ((1, 2, 3, 4, 5) if len(ftype) == 1 else (2, 3)):
                fs = sympy.symbols(f'f0:{L}')
                box = {}
                MP = ham.MPO
                orig = MP.__dict__['from_opgraph']
                def rec(cls, qd, graph, opmap, compute_nid_map=False):
                    box.update(qd=qd, graph=graph, opmap=opmap); raise _Captured()
                MP.from_opgraph = classmethod(rec)
                try:
                    try:
                        ham.linear_fermionic_mpo(list(fs), ftype)
                    except _Captured:
                        pass
                finally:
                    MP.from_opgraph = orig
                if not box:
                    out.append(Verdict(f'linear_fermionic_mpo[{ftype}, L={L}]: graph captured', 'S', 'undecided', 'no call of MPO.from_opgraph', 0, fn, 'ensures', 'sympy'))
                    continue
                ok = True; where = ''
                for k in range(L):
                    for val in (1.0, 1j):
                        sub = {s: (val if j == k else 0) for j, s in enumerate(fs)}
                        Hc = graph_dense(box['graph'], box['opmap'], sub)
                        coeff = np.array([val if j == k else 0 for j in range(L)], dtype=complex)
                        Hr = np.asarray(h_ham.linear_fermionic_ref(coeff, ftype), dtype=complex)
                        if np.linalg.norm(Hc - Hr) > 1e-12:
                            ok = False; where = f'e_{k}*{val}: deviation {np.linalg.norm(Hc - Hr):.3e}'
                lin = all(sympy.Poly(sympy.sympify(c), *fs).total_degree() <= 1 and abs(complex(sympy.sympify(c).subs({s: 0 for s in fs})) - round(abs(complex(sympy.sympify(c).subs({s: 0 for s in fs}))))) < 1e-15
                          for e in box['graph'].edges.values() for _, c in e.opics)
                v = Verdict(f'linear_fermionic_mpo[{ftype}, L={L}]: hand-built graph equals sum_i f_i op_i for every coefficient vector', 'S',
                            'discharged' if ok and lin else 'refuted', where + (' (needs native confirmation)' if not (ok and lin) else ''), 0, fn, 'ensures', 'sympy+numpy')
                v.confirm = ['linear_fermionic_mpo']
                out.append(v)
    except Exception as e:
        out.append(Verdict('linear_fermionic_mpo: symbolic execution', 'S', 'undecided', f'{type(e).__name__}: {e}', 0, fn, 'ensures', 'sympy'))
    for vv in out[n0:]:
        vv.seconds = (time.time() - t0) / max(1, len(out) - n0)
    return out
