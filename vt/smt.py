"""SMT glue: z3 (python3-vt) with a timeout on every query; `unknown` is retried on /usr/bin/cvc5 via
SMT-LIB2; `unknown` / timeout is undecided, never a violation."""
import subprocess, tempfile, os, time
import z3

TIMEOUT_MS = int(os.environ.get('VT_SMT_TIMEOUT_MS', '20000'))
STATS = {'z3': [0, 0.0], 'cvc5': [0, 0.0]}


def check_unsat(formulas, timeout=None, try_cvc5=True):
    """-> 'unsat' | 'sat' | 'unknown' (+ model for sat)"""
    s = z3.Solver()
    s.set('timeout', timeout or TIMEOUT_MS)
    for f in formulas:
        s.add(f)
    t0 = time.time()
    r = s.check()
    STATS['z3'][0] += 1; STATS['z3'][1] += time.time() - t0
    if r == z3.unsat:
        return 'unsat', None
    if r == z3.sat:
        return 'sat', s.model()
    if try_cvc5 and os.path.exists('/usr/bin/cvc5'):
        t0 = time.time()
        try:
            txt = '(set-logic ALL)\n' + s.to_smt2()
            with tempfile.NamedTemporaryFile('w', suffix='.smt2', dir=os.environ.get('TMPDIR', '/dev/shm'), delete=False) as f:
                f.write(txt); path = f.name
            p = subprocess.run(['/usr/bin/cvc5', '--tlimit=%d' % (timeout or TIMEOUT_MS), path], capture_output=True, text=True,
                               timeout=(timeout or TIMEOUT_MS) / 1000 + 5)
            os.unlink(path)
            out = p.stdout.strip().splitlines()[0] if p.stdout.strip() else ''
            STATS['cvc5'][0] += 1; STATS['cvc5'][1] += time.time() - t0
            if out == 'unsat':
                return 'unsat', None
        except Exception:
            pass
    return 'unknown', None


class Solver:
    """interface used by the symbolic executor"""
    def __init__(self, axioms=()):
        self.axioms = list(axioms)
        self.queries = 0
        self.seconds = 0.0

    def implied(self, pc, f, final=False):
        t0 = time.time()
        r, _ = check_unsat(self.axioms + [p for p in pc if isinstance(p, z3.ExprRef)] + [z3.Not(f)],
                           timeout=TIMEOUT_MS if final else 2000, try_cvc5=final)
        self.queries += 1; self.seconds += time.time() - t0
        if r == 'unsat':
            return True
        if r == 'sat':
            return False
        return None

    def feasible(self, pc):
        t0 = time.time()
        r, _ = check_unsat(self.axioms + [p for p in pc if isinstance(p, z3.ExprRef)], timeout=2000, try_cvc5=False)
        self.queries += 1; self.seconds += time.time() - t0
        return r != 'unsat'

    def model(self, pc, f):
        r, m = check_unsat(self.axioms + [p for p in pc if isinstance(p, z3.ExprRef)] + [z3.Not(f)], try_cvc5=False)
        return m if r == 'sat' else None
