"""SMT glue: z3 (python3-vt) with a timeout on every query; `unknown` is retried on /usr/bin/cvc5 via
SMT-LIB2; `unknown` / timeout is undecided, never a violation."""
import subprocess, tempfile, os, time, shutil
import z3

TIMEOUT_MS = int(os.environ.get('VT_SMT_TIMEOUT_MS', '20000'))
STATS = {'z3': [0, 0.0], 'cvc5': [0, 0.0]}


EXTERNAL = [False]      # quantified queries are sent to a z3 child process that can be killed (see check_unsat_external)
Z3_BIN = shutil.which('z3-new') or shutil.which('z3') or '/usr/bin/z3'


def check_unsat_external(formulas, timeout=None, try_cvc5=True):
    """same contract as check_unsat, but the query runs in a child process with a hard wall-clock kill:
    in-process z3 occasionally ignores both its timeout and Z3_interrupt inside quantifier instantiation"""
    timeout = timeout or TIMEOUT_MS
    s = z3.Solver()
    for f in formulas:
        s.add(f)
    txt = s.to_smt2()
    t0 = time.time()
    path = None
    try:
        with tempfile.NamedTemporaryFile('w', suffix='.smt2', dir=os.environ.get('TMPDIR', '/dev/shm'), delete=False) as f:
            f.write(txt); path = f.name
        out = ''
        try:
            p = subprocess.run([Z3_BIN, f'-T:{max(1, int(timeout / 1000 + 0.999))}', path], capture_output=True, text=True, timeout=timeout / 1000 + 2)
            out = p.stdout.strip().splitlines()[0] if p.stdout.strip() else ''
        except subprocess.TimeoutExpired:
            out = 'timeout'
        STATS['z3'][0] += 1; STATS['z3'][1] += time.time() - t0
        if os.environ.get('VT_SMT_LOG') and time.time() - t0 > 1.0:
            with open(os.environ['VT_SMT_LOG'], 'a') as fh:
                fh.write(f'{os.getpid()} ext {time.time() - t0:.2f}s {out} timeout={timeout}\n')
        if out == 'unsat':
            return 'unsat', None
        if out == 'sat':
            return 'sat', None
        if try_cvc5 and os.path.exists('/usr/bin/cvc5'):
            t1 = time.time()
            try:
                with open(path, 'w') as f:
                    f.write('(set-logic ALL)\n' + txt)
                p = subprocess.run(['/usr/bin/cvc5', '--tlimit=%d' % timeout, path], capture_output=True, text=True, timeout=timeout / 1000 + 5)
                o2 = p.stdout.strip().splitlines()[0] if p.stdout.strip() else ''
                STATS['cvc5'][0] += 1; STATS['cvc5'][1] += time.time() - t1
                if o2 == 'unsat':
                    return 'unsat', None
            except Exception:
                pass
        return 'unknown', None
    finally:
        if path and os.path.exists(path):
            os.unlink(path)


def check_unsat(formulas, timeout=None, try_cvc5=True):
    """-> 'unsat' | 'sat' | 'unknown' (+ model for sat)"""
    if EXTERNAL[0]:
        # fast path: in-process with a small deterministic resource limit (honoured, unlike the wall-clock timeout);
        # everything that does not finish within it goes to the killable child process
        s0 = z3.Solver()
        s0.set('rlimit', int(os.environ.get('VT_FAST_RLIMIT', '400000')))
        for f in formulas:
            s0.add(f)
        t0 = time.time()
        try:
            r0 = s0.check()
        except z3.Z3Exception:
            r0 = z3.unknown
        STATS['z3'][0] += 1; STATS['z3'][1] += time.time() - t0
        if r0 == z3.unsat:
            return 'unsat', None
        if r0 == z3.sat:
            return 'sat', None
        return check_unsat_external(formulas, timeout, try_cvc5)
    s = z3.Solver()
    s.set('timeout', timeout or TIMEOUT_MS)
    # deterministic resource limit as a second guard: z3 does not always honour the wall-clock timeout inside
    # quantifier instantiation; ~1.5e6 rlimit units per second of work on this machine
    for f in formulas:
        s.add(f)
    if os.environ.get('VT_SMT_DUMP'):
        with open(os.environ['VT_SMT_DUMP'], 'w') as fh:
            fh.write(s.to_smt2())
    t0 = time.time()
    # hard wall-clock guard: interrupt the context from a timer thread (the solver timeout is not always honoured)
    import threading
    ctx = s.ctx
    timer = threading.Timer((timeout or TIMEOUT_MS) / 1000.0 + 0.5, ctx.interrupt)
    timer.daemon = True
    timer.start()
    try:
        r = s.check()
    except z3.Z3Exception:
        r = z3.unknown
    finally:
        timer.cancel()
    STATS['z3'][0] += 1; STATS['z3'][1] += time.time() - t0
    if os.environ.get('VT_SMT_LOG') and time.time() - t0 > 1.0:
        with open(os.environ['VT_SMT_LOG'], 'a') as fh:
            fh.write(f'{os.getpid()} {time.time() - t0:.2f}s {r} timeout={timeout}\n')
    if r == z3.unsat:
        return 'unsat', None
    if r == z3.sat:
        return 'sat', s.model()
    if try_cvc5 and os.path.exists('/usr/bin/cvc5'):
        t0 = time.time()
        try:
            txt = '(set-logic ALL)\n' + s.to_smt2()
            with tempfile.NamedTemporaryFile('w', suffix='.smt2', dir=os.environ.get('TMPDIR', '/dev/shm'), delete=False) as f:
                f.write(txt); path = f.name
            p = subprocess.run(['/usr/bin/cvc5', '--tlimit=%d' % (timeout or TIMEOUT_MS), path], capture_output=True, text=True,
                               timeout=(timeout or TIMEOUT_MS) / 1000 + 5)
            os.unlink(path)
            out = p.stdout.strip().splitlines()[0] if p.stdout.strip() else ''
            STATS['cvc5'][0] += 1; STATS['cvc5'][1] += time.time() - t0
            if out == 'unsat':
                return 'unsat', None
        except Exception:
            pass
    return 'unknown', None


class Solver:
    """interface used by the symbolic executor"""
    def __init__(self, axioms=()):
        self.axioms = list(axioms)
        self.queries = 0
        self.seconds = 0.0

    def implied(self, pc, f, final=False):
        t0 = time.time()
        r, _ = check_unsat(self.axioms + [p for p in pc if isinstance(p, z3.ExprRef)] + [z3.Not(f)],
                           timeout=TIMEOUT_MS if final else 800, try_cvc5=final)
        self.queries += 1; self.seconds += time.time() - t0
        if r == 'unsat':
            return True
        if r == 'sat':
            return False
        return None

    def feasible(self, pc):
        t0 = time.time()
        r, _ = check_unsat(self.axioms + [p for p in pc if isinstance(p, z3.ExprRef)], timeout=800, try_cvc5=False)
        self.queries += 1; self.seconds += time.time() - t0
        return r != 'unsat'

    def model(self, pc, f):
        r, m = check_unsat(self.axioms + [p for p in pc if isinstance(p, z3.ExprRef)] + [z3.Not(f)], try_cvc5=False)
        return m if r == 'sat' else None
