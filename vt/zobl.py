"""Engine Z obligations per property: symbolic execution of the real AST with z3 values."""
import time, ast
import z3
from . import loader
from .contract import Verdict
from .symexec import Exec, Unsupported, Refuted, State, Closure
from .libz import LIB_Z, ZArr, ZScal, make_loop_handler, is_z, zint, oblige, fresh_int
from .smt import Solver


class ZContract:
    """requires: list of z3 formulas over the symbolic arguments; post(ret, env, ex, st) -> list of (name, formula)"""
    def __init__(self, fn, make, props, lib=None, calls=None, invariants=None, note='', confirm=None):
        self.confirm = confirm or [fn.split('.')[-1]]
        self.fn = fn; self.make = make; self.props = props; self.lib = lib or {}; self.calls = calls or {}
        self.invariants = invariants or {}; self.note = note

    def verify(self):
        out = []
        t0 = time.time()
        fnode = loader.function(self.fn)
        spec = self.make()
        args, requires, post, canary = spec['args'], spec.get('requires', []), spec['post'], spec.get('canary')
        lib = dict(LIB_Z); lib.update(self.lib)
        solver = Solver()
        ex = Exec(lib=lib, calls=self.calls, mode='Z', solver=solver, loop_handler=make_loop_handler(self.invariants), fname=self.fn)
        ex.assume_asserts = set(spec.get('assume_asserts', ()))
        ex.check_dtypes = bool(spec.get('check_dtypes'))
        st = State(args, list(requires))
        params = [a.arg for a in fnode.args.args]
        missing = [p for p in params if p not in args and p not in [a.arg for a in fnode.args.args[len(params) - len(fnode.args.defaults):]]]
        try:
            if missing:
                raise Unsupported(f'stale contract: parameters {missing}')
            for p, d in zip(params[len(params) - len(fnode.args.defaults):], fnode.args.defaults):
                if p not in st.env:
                    st.env[p] = ast.literal_eval(d)
            # vacuity: the precondition is satisfiable
            if not solver.feasible(requires):
                out.append(Verdict('precondition_satisfiable', 'Z', 'refuted', 'contradictory requires', 0, self.fn, 'vacuity', 'z3'))
                return out
            states = ex.block(fnode.body, [st])
        except Refuted as e:
            out.append(Verdict('executes', 'Z', 'refuted', str(e), time.time() - t0, self.fn, 'safety', 'z3'))
            return out
        except Unsupported as e:
            out.append(Verdict('executes', 'Z', 'undecided', f'outside fragment: {e}', time.time() - t0, self.fn, 'safety', 'z3'))
            return out
        for ob in ex.obligations:
            status = 'discharged' if ob.holds is True else 'refuted' if ob.holds is False else 'undecided'
            out.append(Verdict(f'{ob.kind}@{ob.lineno}: {ob.text[:80]}', 'Z', status, ob.detail, 0.0, self.fn, ob.kind, 'z3'))
        finals = [s for s in states if s.done and s.raised is None]
        raised = [s for s in states if s.raised is not None and solver.feasible(s.pc)]
        if raised and not spec.get('allow_raise'):
            out.append(Verdict('no_exception', 'Z', 'undecided' if any(getattr(s, 'approx', False) for s in raised) else 'refuted',
                               f'a path raises {raised[0].raised}', 0, self.fn, 'safety', 'z3'))
        if not finals:
            out.append(Verdict('returns', 'Z', 'undecided', 'no returning path found', time.time() - t0, self.fn, 'ensures', 'z3'))
        agg = {}
        for k, s in enumerate(finals):
            try:
                clauses = post(s.ret, s.env, ex, s)
            except (Unsupported, Refuted, TypeError, AttributeError, IndexError, ValueError) as e:
                agg.setdefault('postcondition', []).append((None if isinstance(e, Unsupported) else False, f'result has unexpected structure: {e}'))
                continue
            for name, f in clauses:
                tq = time.time()
                if isinstance(f, bool):
                    r = f
                else:
                    r = solver.implied([p for p in s.pc if is_z(p)], f, final=True)
                agg.setdefault(name, []).append((r, f'return path {k + 1}/{len(finals)}'))
        for name, rs in agg.items():
            if all(r is True for r, _ in rs):
                out.append(Verdict(name, 'Z', 'discharged', f'{len(rs)} return paths', 0, self.fn, 'ensures', 'z3'))
            elif any(r is False for r, _ in rs):
                out.append(Verdict(name, 'Z', 'refuted', [d for r, d in rs if r is False][0] + ' (needs native confirmation: loop states are over-approximated)', 0, self.fn, 'ensures', 'z3'))
            else:
                out.append(Verdict(name, 'Z', 'undecided', 'solver unknown', 0, self.fn, 'ensures', 'z3'))
        if canary is not None:
            bad = True
            for s in finals:
                for name, f in canary(s.ret, s.env, ex, s):
                    r = solver.implied([p for p in s.pc if is_z(p)], f, final=False)
                    if r is not True:
                        bad = False
            out.append(Verdict('canary', 'Z', 'canary-verified' if bad and finals else 'canary-ok', 'wrong variant of the postcondition', 0, self.fn, 'canary', 'z3'))
        tot = time.time() - t0
        for v in out:
            v.seconds = tot / max(1, len(out))
            v.confirm = self.confirm
        return out


CONTRACTS = []

# ---- krylov: output sizes on every return path (C14), shapes of the Krylov approximations (C15) ------------------

def _afunc(ex, st, node, args, kw):
    x = args[0]
    if not getattr(x, 'is_zarr', False) or x.ndim != 1:
        raise Refuted('Afunc applied to a non-vector')
    return ZArr(x.shape, 'complex')           # a Hermitian map may be complex even for a real vector

def _lanczos():
    n = z3.Int('n'); m = z3.Int('numiter')
    def post(ret, env, ex, st):
        alpha, beta, V = ret
        mp = zint(alpha.shape[0])
        return [('sizes_consistent', z3.And(alpha.ndim == 1, beta.ndim == 1, V.ndim == 2, zint(beta.shape[0]) == mp - 1,
                                            zint(V.shape[0]) == n, zint(V.shape[1]) == mp) if alpha.ndim == 1 and beta.ndim == 1 and V.ndim == 2 else False),
                ('size_range', z3.And(mp >= 1, mp <= m))]
    def canary(ret, env, ex, st):
        alpha, beta, V = ret
        return [('c', zint(beta.shape[0]) == zint(alpha.shape[0]))]
    return dict(args={'Afunc': _afunc, 'vstart': ZArr((n,), 'param:vstart'), 'numiter': m}, requires=[n >= 1, m >= 1], post=post, canary=canary, assume_asserts=['nrmv > 0'], check_dtypes=True)

CONTRACTS.append(ZContract('krylov.lanczos_iteration', _lanczos, ('C14', 'C15', 'C08', 'C10'),
                           confirm=['lanczos_iteration', 'eigh_krylov', 'expm_krylov', 'integrate_local', 'calculate_ground_state']))

# ---- Lanczos: the returned off-diagonals are positive (C14), on the full path and on the early (breakdown) exit ------------
# 1-D real arrays carry an element function (RV1 of vt/zqr.py), real scalars that matter carry a z3 value (RScal): the norm of
# w is >= 0, the breakdown threshold 100 * n * eps is > 0, and the sidecar invariant says that every off-diagonal stored so far
# passed the test `not (beta[j] < threshold)`.

class RScal(ZScal):
    def __init__(self, val):
        ZScal.__init__(self, 'real'); self.val = val

_EPS = z3.Real('machine_eps')

def _rs_eps(ex, st, node, base):
    from .libz import FInfo
    return RScal(_EPS) if isinstance(base, FInfo) else NotImplemented

def _rs_norm(ex, st, node, args, kw):
    v = z3.Real(f'norm!{id(node)}_{len(st.pc)}')
    st.pc.append(v >= 0)
    return RScal(v)

def _rs_binop(ex, st, node, op, l, r):
    from .libz import z_binop
    def val(x):
        if isinstance(x, RScal):
            return x.val
        if isinstance(x, int) and not isinstance(x, bool) or (is_z(x) and x.sort() == z3.IntSort()):
            return z3.ToReal(zint(x))
        return None
    if isinstance(op, ast.Mult) and (isinstance(l, RScal) or isinstance(r, RScal)) and val(l) is not None and val(r) is not None:
        return RScal(val(l) * val(r))
    return z_binop(ex, st, node, op, l, r)

def _rs_compare(ex, st, node, op, l, r):
    from .libz import z_compare
    if isinstance(l, RScal) and isinstance(r, RScal):
        return {ast.Lt: l.val < r.val, ast.LtE: l.val <= r.val, ast.Gt: l.val > r.val, ast.GtE: l.val >= r.val}.get(type(op), z3.Bool(f'cmp!{id(node)}'))
    return z_compare(ex, st, node, op, l, r)

def _rs_zeros(ex, st, node, args, kw):
    from .libz import np_zeros
    from .zqr import RV1
    z = np_zeros(ex, st, node, args, kw)
    if getattr(z, 'is_zarr', False) and z.ndim == 1 and z.kind == 'real':
        return RV1(z.shape[0], lambda c: z3.RealVal(0), origin=('zeros',))
    return z

def _rs_getitem(ex, st, node, base, key):
    from .libz import z_getitem, norm_index
    from .zqr import q_getitem
    if getattr(base, 'is_rv1', False):
        if isinstance(key, slice):
            return q_getitem(ex, st, node, base, key)
        if isinstance(key, int) or is_z(key):
            k = norm_index(ex, st, node, key, base.shape[0], ast.unparse(node)[:40])
            return RScal(base.a(k))
    return z_getitem(ex, st, node, base, key)

def _rs_setitem(ex, st, node, base, key, v):
    from .libz import z_setitem, norm_index
    from .zqr import RV1
    if getattr(base, 'is_rv1', False) and (isinstance(key, int) or is_z(key)):
        k = norm_index(ex, st, node, key, base.shape[0], ast.unparse(node)[:40])
        val = v.val if isinstance(v, RScal) else z3.Real(f'stored!{id(node)}_{len(st.pc)}')
        return RV1(base.shape[0], lambda c, b=base, k=k, val=val: z3.If(c == k, val, b.a(c)), origin=('store1', base))
    return z_setitem(ex, st, node, base, key, v)

def _lanczos_beta():
    n = z3.Int('n'); m = z3.Int('numiter'); k = z3.Int('k')
    thr = 100 * z3.ToReal(n) * _EPS
    def inv(env, ex, st):
        beta = env.get('beta'); j = env['#iter']
        if not getattr(beta, 'is_rv1', False):
            return z3.BoolVal(False)
        return z3.ForAll([k], z3.Implies(z3.And(0 <= k, k < j), beta.a(k) >= thr))
    def post(ret, env, ex, st):
        alpha, beta, V = ret
        if not getattr(beta, 'is_rv1', False):
            return [('off_diagonals_positive', False)]
        return [('off_diagonals_positive', z3.ForAll([k], z3.Implies(z3.And(0 <= k, k < zint(beta.shape[0])), beta.a(k) > 0)))]
    return dict(args={'Afunc': _afunc, 'vstart': ZArr((n,), 'param:vstart'), 'numiter': m}, requires=[n >= 1, m >= 1, _EPS > 0], post=post,
                assume_asserts=['nrmv > 0'], inv={'for j in range(numiter - 1)': inv})

class ZContractInv(ZContract):
    """ZContract whose sidecar loop invariants come from the spec (they mention the spec's symbols)"""
    def verify(self):
        self.invariants = self.make().get('inv', {})
        if self.lib is None or not self.lib:
            self.lib = _hess_lib() if 'Hessenberg' in self.note else {}
        out = ZContract.verify(self)
        # only the value-level clauses are reported by this contract (sizes and indices are reported by the plain contract)
        return [v for v in out if v.kind in ('invariant', 'ensures', 'vacuity') or v.status != 'discharged']

CONTRACTS.append(ZContractInv('krylov.lanczos_iteration', _lanczos_beta, ('C14',),
                              lib={'getattr.eps': _rs_eps, 'np.linalg.norm': _rs_norm, 'binop': _rs_binop, 'compare': _rs_compare, 'np.zeros': _rs_zeros,
                                   'getitem': _rs_getitem, 'setitem': _rs_setitem},
                              confirm=['lanczos_iteration'], note='positivity of the returned off-diagonals'))


# ---- Arnoldi: the returned matrix is upper Hessenberg (C14) -- support predicate of vt/zqr.py on the matrix H ---------------------

def _arnoldi_hessenberg():
    n = z3.Int('n'); m = z3.Int('numiter'); a, b = z3.Ints('a b')
    def inv_outer(env, ex, st):
        H = env.get('H'); j = env['#iter']
        if not getattr(H, 'is_sarr', False):
            return z3.BoolVal(False)
        return z3.ForAll([a, b], z3.Implies(H.nz(a, b), z3.And(a <= b + 1, b < j)))
    def inv_inner(env, ex, st):
        H = env.get('H'); k = env['#iter']; j = env.get('j')
        if not getattr(H, 'is_sarr', False) or j is None:
            return z3.BoolVal(False)
        j = zint(j)
        return z3.ForAll([a, b], z3.Implies(H.nz(a, b), z3.And(a <= b + 1, z3.Or(b < j, z3.And(b == j, a < k)))))
    def post(ret, env, ex, st):
        H, V = ret
        if not getattr(H, 'is_sarr', False):
            return [('matrix_is_upper_hessenberg', False)]
        return [('matrix_is_upper_hessenberg', z3.ForAll([a, b], z3.Implies(z3.And(0 <= a, a < zint(H.shape[0]), 0 <= b, b < zint(H.shape[1]), H.nz(a, b)), a <= b + 1)))]
    return dict(args={'Afunc': _afunc, 'vstart': ZArr((n,), 'param:vstart'), 'numiter': m}, requires=[n >= 1, m >= 1], post=post,
                assume_asserts=['nrmv > 0'], inv={'for j in range(numiter - 1)': inv_outer, 'for k in range(j + 1)': inv_inner})

def _hess_lib():
    from . import zqr
    return {k: zqr.LIB_Q[k] for k in ('np.zeros', 'getitem', 'setitem')}

CONTRACTS.append(ZContractInv('krylov.arnoldi_iteration', _arnoldi_hessenberg, ('C14',), lib=None, confirm=['arnoldi_iteration'],
                              note='upper Hessenberg structure of the returned matrix'))
CONTRACTS[-1].lib = None       # filled lazily (vt.zqr imports this module's siblings)


def _arnoldi():
    n = z3.Int('n'); m = z3.Int('numiter')
    def post(ret, env, ex, st):
        H, V = ret
        mp = zint(H.shape[0])
        return [('sizes_consistent', z3.And(zint(H.shape[1]) == mp, zint(V.shape[0]) == n, zint(V.shape[1]) == mp) if H.ndim == 2 and V.ndim == 2 else False),
                ('size_range', z3.And(mp >= 1, mp <= m))]
    def canary(ret, env, ex, st):
        H, V = ret
        return [('c', zint(V.shape[1]) == m)]
    return dict(args={'Afunc': _afunc, 'vstart': ZArr((n,), 'param:vstart'), 'numiter': m}, requires=[n >= 1, m >= 1], post=post, canary=canary, assume_asserts=['nrmv > 0'], check_dtypes=True)

CONTRACTS.append(ZContract('krylov.arnoldi_iteration', _arnoldi, ('C14', 'C15'), confirm=['arnoldi_iteration', 'expm_krylov']))


def verify(prop, tier='quick'):
    from . import idfresh
    out = idfresh.verify(prop)
    if prop == 'C06':
        try:
            from . import symham
            out += symham.verify()
            out += symham.verify_graph_models()
        except Exception as e:
            out.append(Verdict('local_terms', 'S', 'undecided', f'engine S error: {type(e).__name__}: {e}', 0, 'hamiltonian', 'ensures', 'sympy'))
    if prop == 'C07':
        try:
            from . import symham
            out += symham.verify_molecular()
        except Exception as e:
            out.append(Verdict('molecular_chains', 'S', 'undecided', f'engine S error: {type(e).__name__}: {e}', 0, 'hamiltonian', 'ensures', 'sympy'))
    if prop in ('C12', 'C13'):
        from . import ztrunc
        try:
            out += ztrunc.verify()
        except Exception as e:
            out.append(Verdict('truncation_rule', 'Z', 'undecided', f'executor error: {type(e).__name__}: {e}', 0, 'bond_ops.retained_bond_indices', 'ensures', 'z3'))
    for c in CONTRACTS:
        if prop in c.props:
            try:
                out += c.verify()
            except Exception as e:
                import traceback
                out.append(Verdict('engine', 'Z', 'undecided', f'executor error: {type(e).__name__}: {e} {traceback.format_exc()[-300:]}', 0, c.fn, 'safety', 'z3'))
    return out


# ---- eigh_krylov / expm_krylov: shape consistency relative to the contracts of the iterations -----------------------

def _k_lanczos(ex, st, node, args, kw):
    Afunc, v, numiter = args
    mp = fresh_int('mprime')
    oblige(ex, st, node, 'callee-pre', 'lanczos_iteration: numiter >= 1', zint(numiter) >= 1)
    st.pc.append(z3.And(mp >= 1, mp <= zint(numiter)))
    return (ZArr((mp,), 'real'), ZArr((mp - 1,), 'real'), ZArr((v.shape[0], mp)))

def _k_arnoldi(ex, st, node, args, kw):
    Afunc, v, numiter = args
    mp = fresh_int('mprime')
    oblige(ex, st, node, 'callee-pre', 'arnoldi_iteration: numiter >= 1', zint(numiter) >= 1)
    st.pc.append(z3.And(mp >= 1, mp <= zint(numiter)))
    return (ZArr((mp, mp)), ZArr((v.shape[0], mp)))

def _eigh_tridiagonal(ex, st, node, args, kw):
    d, e = args
    oblige(ex, st, node, 'callee-pre', 'eigh_tridiagonal: len(e) == len(d) - 1', zint(e.shape[0]) == zint(d.shape[0]) - 1)
    return (ZArr((d.shape[0],), 'real'), ZArr((d.shape[0], d.shape[0]), 'real'))

def _expm(ex, st, node, args, kw):
    a = args[0]
    oblige(ex, st, node, 'callee-pre', 'expm: square matrix', zint(a.shape[0]) == zint(a.shape[1]) if a.ndim == 2 else False)
    return ZArr(a.shape)

_KCALLS = {'lanczos_iteration': _k_lanczos, 'arnoldi_iteration': _k_arnoldi, 'eigh_tridiagonal': _eigh_tridiagonal, 'expm': _expm}

def _eigh_krylov():
    n = z3.Int('n'); m = z3.Int('numiter'); k = z3.Int('numeig')
    def post(ret, env, ex, st):
        w, u = ret
        return [('shapes', z3.And(zint(u.shape[0]) == n, zint(u.shape[1]) == zint(w.shape[0]), zint(w.shape[0]) >= 1, zint(w.shape[0]) <= k))]
    return dict(args={'Afunc': _afunc, 'vstart': ZArr((n,)), 'numiter': m, 'numeig': k}, requires=[n >= 1, m >= 1, k >= 1], post=post)

CONTRACTS.append(ZContract('krylov.eigh_krylov', _eigh_krylov, ('C15', 'C10'), calls=_KCALLS))

def _expm_krylov(herm):
    def make():
        n = z3.Int('n'); m = z3.Int('numiter')
        def post(ret, env, ex, st):
            return [(f'shape[hermitian={herm}]', z3.And(ret.ndim == 1, zint(ret.shape[0]) == n) if ret.ndim == 1 else False)]
        return dict(args={'Afunc': _afunc, 'v': ZArr((n,)), 'dt': ZScal(), 'numiter': m, 'hermitian': herm}, requires=[n >= 1, m >= 1], post=post)
    return make

CONTRACTS.append(ZContract('krylov.expm_krylov', _expm_krylov(True), ('C15', 'C08'), calls=_KCALLS))
CONTRACTS.append(ZContract('krylov.expm_krylov', _expm_krylov(False), ('C15',), calls=_KCALLS))
