"""Symbolic executor over the real AST of pytenet functions.

One core (statements, expressions, path forking, obligations) with pluggable value domains:
  * engine T values: vt.tensor.SymTensor, Dim (symbolic shapes)
  * engine Z values: z3 Int/Real/Bool expressions, ZArr (abstract arrays with z3 shapes)
  * ordinary Python values (ints, strings, tuples, lists-as-tuples, None), Obj records, Closure

Values are immutable; in-place updates of Python containers/arrays are modelled as rebinding
(aliasing is the business of engine F, vt/frame.py).  Anything outside the supported subset
raises Unsupported -> the obligation that needed it is *undecided*, never failed.
"""
import ast, copy
from fractions import Fraction
from . import tensor as T

try:
    import z3
except Exception:                      # pragma: no cover
    z3 = None


class Unsupported(Exception):
    pass

class Refuted(Exception):
    """the code fails for generic inputs satisfying the precondition (e.g. shape error)"""
    pass


class Obj:
    """immutable record standing for a Python object"""
    def __init__(self, cls, attrs):
        self.cls = cls
        self.attrs = dict(attrs)
    def __getattr__(self, name):
        a = self.__dict__.get('attrs', {})
        if name in a:
            return a[name]
        raise AttributeError(name)
    def set(self, name, val):
        a = dict(self.attrs); a[name] = val
        return Obj(self.cls, a)
    def __repr__(self):
        return f'Obj<{self.cls}>({list(self.attrs)})'


class Closure:
    def __init__(self, node, env, ex):
        self.node = node; self.env = env; self.ex = ex


class SymSeq:
    """a sequence indexed by symbolic site expressions: getter(key) -> value, with functional stores.
    key is a canonical string of the index expression (e.g. 'i', 'i+1', '-1', 'L-1')."""
    def __init__(self, name, getter, length=None, stores=None):
        self.name = name; self.getter = getter; self.length = length
        self.stores = dict(stores or {})
    def get(self, key):
        if key in self.stores:
            return self.stores[key]
        return self.getter(key)
    def store(self, key, val):
        s = dict(self.stores); s[key] = val
        return SymSeq(self.name, self.getter, self.length, s)
    def __getitem__(self, key):
        return self.get(str(key))


class SymIndex:
    """symbolic integer site index: linear form  base + offset  (base a name or '' for constants)"""
    def __init__(self, base, off=0):
        self.base = base; self.off = off
    def key(self):
        if not self.base:
            return str(self.off)
        if self.off == 0:
            return self.base
        return f'{self.base}{self.off:+d}'
    def __add__(self, o):
        if isinstance(o, int):
            return SymIndex(self.base, self.off + o)
        if isinstance(o, SymIndex) and not o.base:
            return SymIndex(self.base, self.off + o.off)
        if isinstance(o, SymIndex) and not self.base:
            return SymIndex(o.base, self.off + o.off)
        raise Unsupported('sum of two symbolic indices')
    __radd__ = __add__
    def __sub__(self, o):
        if isinstance(o, int):
            return SymIndex(self.base, self.off - o)
        if isinstance(o, SymIndex) and o.base == self.base:
            return self.off - o.off
        raise Unsupported('difference of symbolic indices')
    def __neg__(self):
        raise Unsupported('negated symbolic index')
    def __repr__(self):
        return f'SymIndex({self.key()})'
    def __eq__(self, o):
        return isinstance(o, SymIndex) and self.key() == o.key()
    def __hash__(self):
        return hash(self.key())


class State:
    def __init__(self, env, pc=()):
        self.env = dict(env); self.pc = list(pc)
        self.ret = None; self.done = False; self.raised = None
    def fork(self):
        s = State(self.env, self.pc)
        if getattr(self, 'approx', False):
            s.approx = True
        s.ctrl = getattr(self, 'ctrl', None)
        return s


class Obligation:
    def __init__(self, kind, text, lineno, holds, detail=''):
        self.kind = kind; self.text = text; self.lineno = lineno; self.holds = holds; self.detail = detail
    def __repr__(self):
        return f'<{self.kind} line {self.lineno}: {self.text} -> {self.holds}>'


class Exec:
    """symbolic executor; `lib` maps call names to handlers handler(ex, st, node, args, kwargs)"""
    trust_models = False
    check_dtypes = False
    def __init__(self, lib=None, calls=None, mode='T', solver=None, loop_handler=None, fname=''):
        self.lib = dict(lib or {})
        self.calls = dict(calls or {})
        self.mode = mode
        self.solver = solver
        self.obligations = []
        self.loop_handler = loop_handler
        self.fname = fname
        self.trace = []

    # ---- statements -----------------------------------------------------------------------
    def run_function(self, fn, args):
        st = State(args)
        outs = self.block(fn.body, [st])
        return outs

    def block(self, stmts, states):
        for stn in stmts:
            nxt = []
            for st in states:
                if st.done or getattr(st, 'ctrl', None):
                    nxt.append(st)
                else:
                    nxt += self.stmt(stn, st)
            states = nxt
        return states

    def stmt(self, n, st):
        if isinstance(n, ast.Expr):
            if isinstance(n.value, ast.Constant):
                return [st]                         # docstring
            self.ev(n.value, st)
            return [st]
        if isinstance(n, ast.Assign):
            v = self.ev(n.value, st)
            for tg in n.targets:
                self.assign(tg, v, st)
            return [st]
        if isinstance(n, ast.AugAssign):
            cur = self.ev(n.target, st)
            rhs = self.ev(n.value, st)
            v = self.binop(n.op, cur, rhs, n, st)
            h = self.lib.get('augassign')
            if h is not None:
                h(self, st, n, cur, v, rhs)     # in-place operators on arrays cannot change the array's kind
            self.assign(n.target, v, st)
            return [st]
        if isinstance(n, ast.AnnAssign):
            if n.value is not None:
                self.assign(n.target, self.ev(n.value, st), st)
            return [st]
        if isinstance(n, ast.Return):
            st.ret = self.ev(n.value, st) if n.value is not None else None
            st.done = True
            return [st]
        if isinstance(n, ast.Assert):
            return self.do_assert(n, st)
        if isinstance(n, ast.Raise):
            st.raised = ast.unparse(n.exc) if n.exc is not None else 'raise'
            st.done = True
            return [st]
        if isinstance(n, ast.If):
            c = self.ev(n.test, st)
            tv = self.truth(c, st)
            if tv is True:
                return self.block(n.body, [st])
            if tv is False:
                return self.block(n.orelse, [st])
            a = st.fork(); b = st.fork()
            a.pc.append(c); b.pc.append(self.not_(c))
            out = []
            if self.feasible(a):
                out += self.block(n.body, [a])
            if self.feasible(b):
                out += self.block(n.orelse, [b])
            return out
        if isinstance(n, (ast.For, ast.While)):
            return self.loop(n, st)
        if isinstance(n, ast.Pass):
            return [st]
        if isinstance(n, (ast.Break, ast.Continue)):
            st.ctrl = 'break' if isinstance(n, ast.Break) else 'continue'
            return [st]
        if isinstance(n, (ast.Import, ast.ImportFrom)):
            return [st]
        raise Unsupported(f'statement {type(n).__name__} at line {n.lineno}')

    def loop(self, n, st):
        if isinstance(n, ast.For):
            it = self.ev(n.iter, st)
            if isinstance(it, (tuple, list, range)):
                states = [st]
                for x in it:
                    nxt = []
                    for s in states:
                        if s.done or getattr(s, 'ctrl', None) == 'break':
                            nxt.append(s); continue
                        self.assign(n.target, x, s)
                        for s2 in self.block(n.body, [s]):
                            if getattr(s2, 'ctrl', None) == 'continue':
                                s2.ctrl = None
                            nxt.append(s2)
                    states = nxt
                for s in states:
                    if getattr(s, 'ctrl', None) == 'break':
                        s.ctrl = None
                return states
        if self.loop_handler is not None:
            return self.loop_handler(self, n, st)
        raise Unsupported(f'loop at line {n.lineno}: {ast.unparse(n.iter) if isinstance(n, ast.For) else ast.unparse(n.test)}')

    def do_assert(self, n, st):
        c = self.ev(n.test, st)
        tv = self.truth(c, st)
        text = ast.unparse(n.test)
        if text in getattr(self, 'assume_asserts', ()):
            # a leading assert of the function is a precondition: callers must establish it
            self.obligations.append(Obligation('precondition', text + ' (leading assert = requires; obligation of the callers)', n.lineno, True))
            if _is_z3(c):
                st.pc.append(c)
            return [st]
        if tv is True:
            self.obligations.append(Obligation('assert', text, n.lineno, True))
            return [st]
        if tv is False:
            self.obligations.append(Obligation('assert', text, n.lineno, False, 'assertion is false for generic inputs'))
            return [st]
        holds = self.prove(c, st)
        self.obligations.append(Obligation('assert', text, n.lineno, holds))
        st.pc.append(c)
        return [st]

    # ---- truth / z3 glue ------------------------------------------------------------------
    def truth(self, c, st):
        if isinstance(c, (bool, int)) and not _is_z3(c):
            return bool(c)
        if c is None:
            return False
        if isinstance(c, (tuple, list, str)):
            return bool(c)
        if isinstance(c, Unknown):
            return None
        if _is_z3(c):
            s = z3.simplify(c) if z3.is_bool(c) else c
            if z3.is_true(s): return True
            if z3.is_false(s): return False
            if self.solver is not None:
                if self.solver.implied(st.pc, s): return True
                if self.solver.implied(st.pc, z3.Not(s)): return False
            return None
        if isinstance(c, T.Dim):
            return True
        raise Unsupported(f'truth value of {type(c).__name__}')

    def not_(self, c):
        if _is_z3(c):
            return z3.Not(c)
        if isinstance(c, Unknown):
            return Unknown('not ' + c.why)
        return not c

    def feasible(self, st):
        if self.solver is None:
            return True
        return self.solver.feasible([p for p in st.pc if _is_z3(p)])

    def prove(self, c, st):
        if isinstance(c, Unknown):
            return None
        if self.solver is None:
            return None
        return self.solver.implied([p for p in st.pc if _is_z3(p)], c, final=True)

    # ---- assignment -----------------------------------------------------------------------
    def assign(self, tg, v, st):
        if isinstance(tg, ast.Name):
            st.env[tg.id] = v
            return
        if isinstance(tg, (ast.Tuple, ast.List)):
            vs = self.unpack(v, len(tg.elts))
            for t, x in zip(tg.elts, vs):
                self.assign(t, x, st)
            return
        if isinstance(tg, ast.Subscript):
            base = self.ev(tg.value, st)
            key = self.ev_index(tg.slice, st)
            newbase = self.store(base, key, v, tg, st)
            self.assign(tg.value, newbase, st)
            return
        if isinstance(tg, ast.Attribute):
            base = self.ev(tg.value, st)
            if isinstance(base, Obj):
                self.assign(tg.value, base.set(tg.attr, v), st)
                return
            if tg.attr == 'shape' and getattr(base, 'is_symtensor', False):
                self.assign(tg.value, self.call_lib('.reshape', st, tg, [base, v], {}), st)
                return
            h = self.lib.get('setattr')
            if h is not None:
                self.assign(tg.value, h(self, st, tg, base, tg.attr, v), st)
                return
        raise Unsupported(f'assignment target {ast.unparse(tg)}')

    def unpack(self, v, n):
        if isinstance(v, (tuple, list)):
            if len(v) != n:
                raise Refuted(f'cannot unpack {len(v)} values into {n}')
            return list(v)
        raise Unsupported(f'unpack {type(v).__name__}')

    def store(self, base, key, v, node, st):
        if isinstance(base, SymSeq):
            k = self.index_key(key, base)
            h = self.lib.get('seq_store_check')
            if h is not None:
                h(self, st, node, base, k)
            new = base.store(k, v)
            if hasattr(base, 'generic'):
                new.generic = base.generic
            return new
        if isinstance(base, (tuple, list)):
            if isinstance(key, int):
                l = list(base)
                if not -len(l) <= key < len(l):
                    raise Refuted('list index out of range in store')
                l[key] = v
                return tuple(l)
        h = self.lib.get('setitem')
        if h is not None:
            return h(self, st, node, base, key, v)
        raise Unsupported(f'store into {type(base).__name__}[{key!r}]')

    def index_key(self, key, seq):
        if isinstance(key, int):
            if key < 0 and seq.length is not None:
                return (seq.length + key).key() if isinstance(seq.length, SymIndex) else str(seq.length + key)
            return str(key)
        if isinstance(key, SymIndex):
            return key.key()
        raise Unsupported(f'sequence index {key!r}')

    # ---- expressions ----------------------------------------------------------------------
    def ev_index(self, sl, st):
        if isinstance(sl, ast.Slice):
            return slice(self.ev(sl.lower, st) if sl.lower else None,
                         self.ev(sl.upper, st) if sl.upper else None,
                         self.ev(sl.step, st) if sl.step else None)
        if isinstance(sl, ast.Tuple):
            return tuple(self.ev_index(e, st) for e in sl.elts)
        return self.ev(sl, st)

    def ev(self, e, st):
        m = getattr(self, 'ev_' + type(e).__name__, None)
        if m is None:
            raise Unsupported(f'expression {type(e).__name__}: {ast.unparse(e)[:60]}')
        return m(e, st)

    def ev_Name(self, e, st):
        if e.id in st.env:
            v = st.env[e.id]
            if getattr(v, 'is_unbound', False):
                raise Unsupported(f'variable {e.id} has no known value here (loop-carried temporary)')
            return v
        if e.id in ('np', 'numpy', 'sparse', 'copy', 'itertools', 'warnings'):
            return ModRef(e.id)
        if e.id in ('True', 'False', 'None'):
            return {'True': True, 'False': False, 'None': None}[e.id]
        if e.id in self.calls or e.id in self.lib or e.id in _BUILTINS:
            return FuncRef(e.id)
        if e.id in ('int', 'float', 'complex', 'str', 'list', 'tuple', 'bool'):
            return FuncRef(e.id)
        if e.id in ('RuntimeWarning', 'ValueError', 'RuntimeError', 'AssertionError', 'TypeError', 'KeyError'):
            return FuncRef(e.id)
        raise Unsupported(f'unbound name {e.id}')

    def ev_Constant(self, e, st):
        return e.value

    def ev_Tuple(self, e, st):
        return tuple(self.ev(x, st) for x in e.elts)

    ev_List = ev_Tuple

    def ev_JoinedStr(self, e, st):
        return '<fstring>'

    def ev_Lambda(self, e, st):
        return Closure(e, dict(st.env), self)

    def ev_IfExp(self, e, st):
        c = self.truth(self.ev(e.test, st), st)
        if c is True: return self.ev(e.body, st)
        if c is False: return self.ev(e.orelse, st)
        h = self.lib.get('ifexp')
        if h is not None:
            return h(self, st, e)
        raise Unsupported('symbolic conditional expression')

    def ev_Attribute(self, e, st):
        base = self.ev(e.value, st)
        if isinstance(base, ModRef):
            return ModRef(base.name + '.' + e.attr)
        if isinstance(base, Obj):
            if e.attr in base.attrs:
                return base.attrs[e.attr]
            h = self.lib.get(f'{base.cls}.{e.attr}')
            if h is not None:
                return h(self, st, e, [base], {})
            return BoundMethod(base, e.attr)
        h = self.lib.get('getattr.' + e.attr)
        if h is not None:
            r = h(self, st, e, base)
            if r is not NotImplemented:
                return r
        return BoundMethod(base, e.attr)

    def ev_Subscript(self, e, st):
        base = self.ev(e.value, st)
        key = self.ev_index(e.slice, st)
        return self.getitem(base, key, e, st)

    def getitem(self, base, key, node, st):
        if isinstance(base, SymSeq):
            if isinstance(key, slice):
                lo = key.start if key.start is not None else 0
                hi = key.stop
                if key.step is not None:
                    raise Unsupported('sequence slice with step')
                if hi is None:
                    if isinstance(lo, int) and lo < 0:
                        return tuple(base.get(self.index_key(k, base)) for k in range(lo, 0))
                    raise Unsupported('open sequence slice')
                if isinstance(lo, int) and isinstance(hi, int) and (lo >= 0) == (hi >= 0):
                    return tuple(base.get(self.index_key(k, base)) for k in range(lo, hi))
                n = hi - lo
                if not isinstance(n, int):
                    raise Unsupported('sequence slice of symbolic length')
                return tuple(self.getitem(base, lo + k, node, st) for k in range(n))
            h = self.lib.get('seq_get')
            if h is not None:
                return h(self, st, node, base, self.index_key(key, base))
            return base.get(self.index_key(key, base))
        if isinstance(base, (tuple, list, str)):
            if isinstance(key, (int, slice)):
                try:
                    return base[key]
                except IndexError:
                    raise Refuted(f'index {key} out of range at line {node.lineno}')
        if isinstance(base, dict):
            return base[key]
        h = self.lib.get('getitem')
        if h is not None:
            return h(self, st, node, base, key)
        raise Unsupported(f'subscript of {type(base).__name__}')

    def ev_UnaryOp(self, e, st):
        v = self.ev(e.operand, st)
        if isinstance(e.op, ast.Not):
            tv = self.truth(v, st)
            if tv is None:
                return self.not_(v)
            return not tv
        if isinstance(e.op, ast.USub):
            if isinstance(v, (int, float, complex, Fraction)) and not _is_z3(v):
                return -v
            if _is_z3(v) and z3.is_arith(v):
                return -v
            h = self.lib.get('neg')
            if h is not None:
                return h(self, st, e, v)
        if isinstance(e.op, ast.UAdd):
            return v
        raise Unsupported(f'unary {type(e.op).__name__} on {type(v).__name__}')

    def ev_BinOp(self, e, st):
        return self.binop(e.op, self.ev(e.left, st), self.ev(e.right, st), e, st)

    def binop(self, op, l, r, node, st=None):
        plain = lambda x: isinstance(x, (int, float, complex, Fraction, str, tuple, list)) and not _is_z3(x)
        if plain(l) and plain(r):
            try:
                return _PYOPS[type(op)](l, r)
            except KeyError:
                raise Unsupported(f'operator {type(op).__name__}')
        if isinstance(l, (SymIndex,)) or isinstance(r, (SymIndex,)):
            if isinstance(op, ast.Add): return l + r
            if isinstance(op, ast.Sub):
                return l - r if isinstance(l, SymIndex) else (-r) + l
        if isinstance(l, T.Dim) or isinstance(r, T.Dim):
            if isinstance(op, ast.Mult):
                return l * r
        if (_is_z3(l) or _is_z3(r)) and all(_is_z3(x) or isinstance(x, (int, float, Fraction)) for x in (l, r)):
            if isinstance(op, ast.FloorDiv):
                return l / r      # z3 Int division is floor division for positive divisor
            if isinstance(op, ast.Pow):
                if isinstance(r, int) and r >= 0:
                    out = 1
                    for _ in range(r): out = out * l
                    return out
                raise Unsupported('symbolic power')
            if type(op) in _PYOPS:
                return _PYOPS[type(op)](l, r)
        if isinstance(l, (tuple, list)) and _is_z3(r) or isinstance(r, (tuple, list)) and _is_z3(l) or \
           isinstance(l, (tuple, list)) and isinstance(r, SymIndex) or isinstance(r, (tuple, list)) and isinstance(l, SymIndex):
            h = self.lib.get('binop_rep')
            r2 = h(self, st, node, op, l, r) if h is not None else NotImplemented
            if r2 is not NotImplemented:
                return r2
            raise Unsupported('list repetition with symbolic count')
        h = self.lib.get('binop')
        if h is not None:
            r2 = h(self, st, node, op, l, r)
            if r2 is not NotImplemented:
                return r2
        raise Unsupported(f'binop {type(op).__name__} on {type(l).__name__}, {type(r).__name__}')

    def ev_BoolOp(self, e, st):
        vals = []
        for x in e.values:
            v = self.ev(x, st)
            tv = self.truth(v, st)
            if isinstance(e.op, ast.And):
                if tv is False: return False
                if tv is None: vals.append(v)
            else:
                if tv is True: return True
                if tv is None: vals.append(v)
        if not vals:
            return isinstance(e.op, ast.And)
        if any(isinstance(v, Unknown) for v in vals):
            return Unknown('boolop')
        if len(vals) == 1:
            return vals[0]
        return z3.And(*vals) if isinstance(e.op, ast.And) else z3.Or(*vals)

    def ev_Compare(self, e, st):
        l = self.ev(e.left, st)
        res = []
        for op, rn in zip(e.ops, e.comparators):
            r = self.ev(rn, st)
            res.append(self.compare(op, l, r, e, st))
            l = r
        if len(res) == 1:
            return res[0]
        if all(isinstance(x, bool) for x in res):
            return all(res)
        if any(x is False for x in res):
            return False
        res = [x for x in res if x is not True]
        if any(isinstance(x, Unknown) for x in res):
            return Unknown('compare')
        return z3.And(*res)

    def compare(self, op, l, r, node, st):
        plain = lambda x: x is None or (isinstance(x, (int, float, complex, Fraction, str, tuple, list, bool)) and not _is_z3(x))
        if isinstance(l, T.Dim) or isinstance(r, T.Dim):
            if isinstance(op, ast.Eq): return l == r
            if isinstance(op, ast.NotEq): return not (l == r)
            return Unknown('dim order comparison')
        if isinstance(l, (tuple, list)) and isinstance(r, (tuple, list)) and isinstance(op, (ast.Eq, ast.NotEq)):
            if len(l) != len(r):
                return isinstance(op, ast.NotEq)
            parts = [self.compare(ast.Eq(), a, b, node, st) for a, b in zip(l, r)]
            if all(p is True for p in parts):
                v = True
            elif any(p is False for p in parts):
                v = False
            elif any(isinstance(p, Unknown) for p in parts):
                return Unknown('tuple compare')
            else:
                v = z3.And(*[p for p in parts if p is not True])
            if isinstance(op, ast.NotEq):
                return self.not_(v) if not isinstance(v, bool) else not v
            return v
        if plain(l) and plain(r):
            return _PYCMP[type(op)](l, r)
        if isinstance(op, (ast.Is, ast.IsNot)):
            same = l is r
            return same if isinstance(op, ast.Is) else not same
        if (_is_z3(l) or _is_z3(r)) and type(op) in _PYCMP and not isinstance(op, (ast.In, ast.NotIn)) \
                and all(_is_z3(x) or x is None or isinstance(x, (int, float, Fraction, str, tuple)) for x in (l, r)):
            if plain(l) and not isinstance(l, (int, float, bool)) or plain(r) and not isinstance(r, (int, float, bool)):
                return isinstance(op, ast.NotEq)
            return _PYCMP[type(op)](l, r)
        if isinstance(l, SymIndex) and isinstance(r, SymIndex) and l.base == r.base:
            return _PYCMP[type(op)](l.off, r.off)
        if isinstance(l, SymIndex) or isinstance(r, SymIndex):
            h = self.lib.get('compare')
            if h is not None:
                r2 = h(self, st, node, op, l, r)
                if r2 is not NotImplemented:
                    return r2
        if isinstance(l, str) or isinstance(r, str):
            if isinstance(op, ast.Eq): return False
            if isinstance(op, ast.NotEq): return True
        h = self.lib.get('compare')
        if h is not None:
            r2 = h(self, st, node, op, l, r)
            if r2 is not NotImplemented:
                return r2
        return Unknown(f'compare {type(l).__name__} {type(op).__name__} {type(r).__name__}')

    def ev_ListComp(self, e, st):
        if len(e.generators) != 1:
            raise Unsupported('nested comprehension')
        g = e.generators[0]
        it = self.ev(g.iter, st)
        if not isinstance(it, (tuple, list, range)):
            h = self.lib.get('listcomp')
            if h is not None:
                return h(self, st, e, it)
            raise Unsupported('comprehension over symbolic iterable')
        out = []
        sub = st.fork()
        for x in it:
            self.assign(g.target, x, sub)
            if all(self.truth(self.ev(c, sub), sub) for c in g.ifs):
                out.append(self.ev(e.elt, sub))
        return tuple(out)

    ev_GeneratorExp = ev_ListComp

    def ev_Call(self, e, st):
        f = e.func
        args = []
        for a in e.args:
            if isinstance(a, ast.Starred):
                args += list(self.ev(a.value, st))
            else:
                args.append(self.ev(a, st))
        kw = {k.arg: self.ev(k.value, st) for k in e.keywords}
        if isinstance(f, ast.Name):
            name = f.id
            if name in st.env:
                fv = st.env[name]
                return self.apply(fv, args, kw, e, st)
            if name in self.calls:
                return self.calls[name](self, st, e, args, kw)
            if name in _BUILTINS:
                return _BUILTINS[name](self, st, e, args, kw)
            if name in self.lib:
                return self.lib[name](self, st, e, args, kw)
            raise Unsupported(f'call to unmodelled function {name}')
        if isinstance(f, ast.Attribute):
            base = self.ev(f.value, st)
            if isinstance(base, ModRef):
                name = base.name + '.' + f.attr
                if name in self.calls:
                    return self.calls[name](self, st, e, args, kw)
                if name in self.lib:
                    return self.lib[name](self, st, e, args, kw)
                raise Unsupported(f'call to unmodelled library function {name}')
            if isinstance(base, Obj):
                name = f'{base.cls}.{f.attr}'
                if name in self.calls:
                    return self.calls[name](self, st, e, [base] + args, kw)
                if f.attr in base.attrs:
                    return self.apply(base.attrs[f.attr], args, kw, e, st)
                raise Unsupported(f'call to method {name} without contract')
            name = '.' + f.attr
            if name in self.lib:
                return self.lib[name](self, st, e, [base] + args, kw)
            raise Unsupported(f'method {f.attr} on {type(base).__name__}')
        fv = self.ev(f, st)
        return self.apply(fv, args, kw, e, st)

    def call_lib(self, name, st, node, args, kw):
        if name not in self.lib:
            raise Unsupported(f'no model for {name}')
        return self.lib[name](self, st, node, args, kw)

    def apply(self, fv, args, kw, node, st):
        if isinstance(fv, Closure):
            lam = fv.node
            env = dict(fv.env)
            params = [a.arg for a in lam.args.args]
            if len(params) != len(args):
                raise Refuted('lambda arity')
            env.update(zip(params, args))
            return self.ev(lam.body, State(env, st.pc))
        if isinstance(fv, FuncRef):
            return self.ev_Call(ast.Call(func=ast.Name(id=fv.name, ctx=ast.Load()), args=[], keywords=[]), st) \
                if False else self._call_named(fv.name, args, kw, node, st)
        if callable(fv):
            return fv(self, st, node, args, kw)
        raise Unsupported(f'call of {type(fv).__name__}')

    def _call_named(self, name, args, kw, node, st):
        if name in self.calls: return self.calls[name](self, st, node, args, kw)
        if name in self.lib: return self.lib[name](self, st, node, args, kw)
        if name in _BUILTINS: return _BUILTINS[name](self, st, node, args, kw)
        raise Unsupported(f'call to {name}')


class Unknown:
    """a boolean the domain cannot express; both branches are explored, nothing is proved from it"""
    def __init__(self, why=''):
        self.why = why
    def __repr__(self):
        return f'Unknown({self.why})'

class ModRef:
    def __init__(self, name): self.name = name

class FuncRef:
    def __init__(self, name): self.name = name

class BoundMethod:
    def __init__(self, base, attr): self.base = base; self.attr = attr


def _is_z3(x):
    return z3 is not None and isinstance(x, z3.ExprRef)


import operator as _op
_PYOPS = {ast.Add: _op.add, ast.Sub: _op.sub, ast.Mult: _op.mul, ast.Div: _op.truediv, ast.FloorDiv: _op.floordiv,
          ast.Mod: _op.mod, ast.Pow: _op.pow}
_PYCMP = {ast.Eq: _op.eq, ast.NotEq: _op.ne, ast.Lt: _op.lt, ast.LtE: _op.le, ast.Gt: _op.gt, ast.GtE: _op.ge,
          ast.In: lambda a, b: a in b, ast.NotIn: lambda a, b: a not in b}


def _b_len(ex, st, node, args, kw):
    v = args[0]
    if isinstance(v, (tuple, list, str)):
        return len(v)
    if isinstance(v, SymSeq):
        if v.length is None:
            raise Unsupported('length of unbounded sequence')
        return v.length
    h = ex.lib.get('len')
    if h is not None:
        return h(ex, st, node, args, kw)
    raise Unsupported(f'len of {type(v).__name__}')

def _b_range(ex, st, node, args, kw):
    if all(isinstance(a, int) for a in args):
        return tuple(range(*args))
    return SymRange(args)

def _b_reversed(ex, st, node, args, kw):
    v = args[0]
    if isinstance(v, (tuple, list)):
        return tuple(reversed(v))
    if isinstance(v, SymRange):
        return SymRange(v.args, rev=not v.rev)
    raise Unsupported('reversed')

def _b_isinstance(ex, st, node, args, kw):
    v = args[0]
    tn = ast.unparse(node.args[1])
    if isinstance(v, (int, float, complex)) and not _is_z3(v):
        return True if any(t in tn for t in (type(v).__name__,)) else False
    if isinstance(v, str):
        return 'str' in tn
    return Unknown('isinstance')

def _b_min(ex, st, node, args, kw):
    vals = args[0] if len(args) == 1 else args
    if all(isinstance(v, (int, float)) and not _is_z3(v) for v in vals):
        return min(vals)
    if ex.mode == 'Z':
        out = vals[0]
        for v in vals[1:]:
            out = z3.If(out <= v, out, v)
        return out
    raise Unsupported('min of symbolic')

def _b_max(ex, st, node, args, kw):
    vals = args[0] if len(args) == 1 else args
    if all(isinstance(v, (int, float)) and not _is_z3(v) for v in vals):
        return max(vals)
    if ex.mode == 'Z':
        out = vals[0]
        for v in vals[1:]:
            out = z3.If(out >= v, out, v)
        return out
    raise Unsupported('max of symbolic')

def _b_abs(ex, st, node, args, kw):
    v = args[0]
    if isinstance(v, (int, float, complex)) and not _is_z3(v):
        return abs(v)
    h = ex.lib.get('abs')
    if h is not None:
        return h(ex, st, node, args, kw)
    raise Unsupported('abs')

def _b_tuple(ex, st, node, args, kw):
    return tuple(args[0]) if args else ()

def _b_sum(ex, st, node, args, kw):
    vals = list(args[0])
    out = vals[0] if vals else 0
    for v in vals[1:]:
        out = ex.binop(ast.Add(), out, v, node, st)
    return out

def _b_zip(ex, st, node, args, kw):
    if all(isinstance(a, (tuple, list)) for a in args):
        return tuple(zip(*args))
    raise Unsupported('zip of symbolic')

def _b_enumerate(ex, st, node, args, kw):
    if isinstance(args[0], (tuple, list)):
        return tuple(enumerate(args[0]))
    raise Unsupported('enumerate of symbolic')

def _b_print(ex, st, node, args, kw):
    return None

_BUILTINS = {'len': _b_len, 'range': _b_range, 'reversed': _b_reversed, 'isinstance': _b_isinstance,
             'min': _b_min, 'max': _b_max, 'abs': _b_abs, 'tuple': _b_tuple, 'list': _b_tuple, 'sum': _b_sum,
             'zip': _b_zip, 'enumerate': _b_enumerate, 'print': _b_print,
             'int': lambda ex, st, node, args, kw: args[0], 'float': lambda ex, st, node, args, kw: args[0]}


class SymRange:
    def __init__(self, args, rev=False):
        self.args = tuple(args); self.rev = rev
    @property
    def lo(self):
        return self.args[0] if len(self.args) >= 2 else 0
    @property
    def hi(self):
        return self.args[1] if len(self.args) >= 2 else self.args[0]
