"""Per-property orchestration: deductive obligations (engines Z/T/F/L) from the real AST, bounded
stand-in (engine R) natively, verdict policy of DESIGN.md section 4, evidence, known findings."""
import importlib, json, os, subprocess, sys, time, hashlib, re, tempfile
from . import loader
from .contract import Verdict

VERIF = os.path.dirname(os.path.dirname(os.path.abspath(__file__)))
NATIVE_PY = os.environ.get('VT_NATIVE_PY', '/venv/bin/python')

TRUSTED_BASE = [
    'CPython ast module (parsing of the real sources)',
    'vt.symexec symbolic executor and its value domains (cross-checked against CPython on random instantiations)',
    'vt.tensor sum-of-product normaliser (certificates = index bijections, numerically cross-checked)',
    'library models of NumPy/SciPy entry points (vt/libt.py, vt/libz.py), conformance-tested every run',
    'z3 5.1 / cvc5 as SMT back ends; Lean 4.33 kernel + Mathlib for the lemma files',
    'exact arithmetic in place of IEEE-754 for every deductive obligation',
    'the statements of the sidecar contracts in /verif/vt/contracts',
]


def load_known():
    p = os.path.join(VERIF, 'known_findings.jsonl')
    out = []
    if os.path.exists(p):
        for l in open(p):
            l = l.strip()
            if l and not l.startswith('#'):
                out.append(json.loads(l))
    return out


def native_env():
    env = dict(os.environ)
    env['PYTHONPATH'] = VERIF + os.pathsep + loader.repo_root()
    env.setdefault('OMP_NUM_THREADS', '1'); env.setdefault('OPENBLAS_NUM_THREADS', '1'); env.setdefault('MKL_NUM_THREADS', '1')
    env['PYTHONDONTWRITEBYTECODE'] = '1'
    return env


def run_bounded(pid, tier, seed, timeout):
    if not os.path.exists(os.path.join(VERIF, 'vt', 'runtime', f'r_{pid}.py')):
        return None
    with tempfile.NamedTemporaryFile(suffix='.json', dir=os.environ.get('TMPDIR', '/dev/shm'), delete=False) as f:
        out = f.name
    try:
        cmd = [NATIVE_PY, '-m', 'vt.runtime.run', pid, '--tier', tier, '--seed', str(seed), '--out', out]
        p = subprocess.run(cmd, cwd=VERIF, env=native_env(), capture_output=True, text=True, timeout=timeout)
        if p.returncode != 0 or not os.path.getsize(out):
            return dict(error=f'bounded runner exit {p.returncode}: {p.stderr[-2000:]}')
        return json.load(open(out))
    except subprocess.TimeoutExpired:
        return dict(error=f'bounded runner exceeded {timeout}s')
    finally:
        if os.path.exists(out):
            os.unlink(out)


def write_replay(pid, name, payload):
    d = os.path.join(VERIF, 'replays' if not os.environ.get('VT_NO_EVIDENCE') else 'replays/selftest', pid)
    os.makedirs(d, exist_ok=True)
    h = hashlib.sha1(json.dumps(payload, sort_keys=True, default=str).encode()).hexdigest()[:10]
    safe = re.sub(r'[^A-Za-z0-9_.-]+', '_', name)[:60]
    path = os.path.join(d, f'{safe}-{h}.json')
    json.dump(payload, open(path, 'w'), indent=1, default=str)
    return path


def known_match(known, pid, signature):
    for k in known:
        if k.get('property') == pid and k.get('status') == 'open' and re.search(k['signature'], signature):
            return k
    return None


def check(pid, tier='quick', seed=0):
    t0 = time.time()
    cfg = importlib.import_module(f'vt.props.{pid}')
    known = load_known()
    # model conformance (DESIGN 3.2): the assumed library contracts are compared with the real library on seeded inputs
    from . import conformance
    ok_conf, why_conf = conformance.run(seed)
    if not ok_conf:
        print(f'CHECKER-BROKEN property={pid} library model conformance failed: {why_conf}')
        return 3
    lines = []
    # ---- deductive part
    verdicts = list(cfg.deductive(tier))
    # a canary that verifies marks the check broken -- unless the clause it shadows is itself refuted (then the code
    # has changed into the canary's wrong variant: that is a violation, reported through the refuted clause)
    status_of = {(v.fn, v.name): v.status for v in verdicts if not v.status.startswith('canary')}
    # a refuted obligation is assumed for the rest of its path (so that later obligations are not reported twice); if it is
    # definitely false the path condition becomes contradictory and everything after it verifies, canaries included. A
    # canary of a function that has a refuted obligation therefore says nothing about the checker.
    unsettled_fns = {v.fn for v in verdicts if v.status == 'refuted'}
    broken = [v for v in verdicts if v.status == 'canary-verified' and status_of.get((v.fn, v.name)) != 'refuted'
              and v.fn not in unsettled_fns]
    obligations = [v for v in verdicts if v.kind != 'canary' and not v.status.startswith('canary')]
    canaries = [v for v in verdicts if v.status.startswith('canary')]
    discharged = [v for v in obligations if v.status == 'discharged']
    refuted = [v for v in obligations if v.status == 'refuted']
    undecided = [v for v in obligations if v.status == 'undecided']
    # ---- bounded part
    budget = getattr(cfg, 'BOUNDED_TIMEOUT', {}).get(tier, 900 if tier == 'quick' else 7200)
    bounded = run_bounded(pid, tier, seed, budget + 240)      # the runner stops itself at `budget` and reports what it has; the grace period is for its shutdown
    violations = []
    known_lines = []
    if bounded and 'error' in bounded:
        print(f'CHECKER-BROKEN property={pid} bounded stand-in failed: {bounded["error"]}')
        _evidence(pid, tier, seed, cfg, verdicts, None, 0, time.time() - t0, note='bounded stand-in crashed: ' + bounded['error'])
        return 3
    if bounded and bounded.get('n_harness_errors') and not bounded.get('failures'):
        print(f'CHECKER-BROKEN property={pid} harness errors in bounded stand-in: {bounded["harness_errors"][0]["error"][:800]}')
        _evidence(pid, tier, seed, cfg, verdicts, bounded, 0, time.time() - t0, note='harness errors')
        return 3
    if bounded and bounded.get('n_harness_errors'):
        # harness errors next to genuine clause failures: the code under test handed the harness a malformed object (e.g. an operand
        # whose shape was changed in place); the failures are reported, the harness errors are noted
        print(f'NOTE property={pid} {bounded["n_harness_errors"]} cases ended in an exception inside the harness (first: '
              f'{bounded["harness_errors"][0]["error"].splitlines()[0][:200]}); clause failures of the same run are reported below')
    bfail = bounded['failures'] if bounded else []
    # contract monitor: the T clauses evaluated numerically on the real functions (counts as bounded evidence)
    mon = None
    try:
        p = subprocess.run([NATIVE_PY, '-m', 'vt.runtime.monitor', pid, '3' if tier == 'quick' else '12'], cwd=VERIF, env=native_env(),
                           capture_output=True, text=True, timeout=600)
        if p.returncode == 0 and p.stdout.strip():
            mon = json.loads(p.stdout.strip().splitlines()[-1])
            bfail = bfail + mon['failures']
            if bounded is not None:
                bounded['monitor'] = dict(evaluations=mon['evaluations'], failures=len(mon['failures']))
    except Exception:
        mon = None
    # engine F: a static must-alias is reported as a violation only when the native snapshot monitor confirms it
    # (the analysis does not know which values are immutable); otherwise it is undecided and the monitor decides
    for v in list(refuted):
        keys = getattr(v, 'confirm', None) or [v.fn.split('.')[-1]]
        if ((v.engine == 'F' and 'definite-write' not in str(v.detail)) or 'needs native confirmation' in str(v.detail)) \
                and not any(any(k in json.dumps(f) for k in keys) for f in bfail):
            v.status = 'undecided'; v.detail = 'static must-alias not confirmed natively: ' + str(v.detail)
            refuted.remove(v); undecided.append(v)
    # ---- refuted deductive obligations -> violations (with replay where a failing input exists)
    for v in refuted:
        sig = f'{v.fn}:{v.name}'
        k = known_match(known, pid, sig)
        if k:
            known_lines.append(f'KNOWN-FINDING: property={pid} {k["what"]}')
            continue
        keys = getattr(v, 'confirm', None) or [v.fn.split('.')[-1]]
        rel = [f for f in bfail if f.get('function') == v.fn or any(k in json.dumps(f) for k in keys)]
        payload = dict(property=pid, kind='deductive', obligation=v.name, function=v.fn, engine=v.engine,
                       prover_output=str(v.detail), source_sha256=loader.hashes(loader.used_modules()))
        if rel:
            payload['case'] = rel[0]['case']; payload['observed'] = rel[0]
            path = write_replay(pid, sig, payload)
            violations.append(f'VIOLATION property={pid} replay={path} obligation={sig}')
        else:
            found = _search_failing_input(pid, v)
            if found:
                payload.update(found)
                path = write_replay(pid, sig, payload)
                violations.append(f'VIOLATION property={pid} replay={path} obligation={sig}')
            else:
                path = write_replay(pid, sig, payload)
                violations.append(f'VIOLATION property={pid} replay={path} obligation={sig} no-failing-input-found')
    # ---- bounded failures
    seen = set()
    for f in bfail:
        sig = f.get('signature') or f.get('clause', '?')
        k = known_match(known, pid, sig)
        if k:
            line = f'KNOWN-FINDING: property={pid} {k["what"]}'
            if line not in known_lines:
                known_lines.append(line)
            continue
        if sig in seen:
            continue
        seen.add(sig)
        payload = dict(property=pid, kind='bounded', clause=f.get('clause'), detail=f.get('detail'), signature=sig,
                       case=f['case'], source_sha256=loader.hashes(loader.used_modules()))
        # contract family: name the obligations of the same function that lost their proof on this tree
        lost = []
        blob = json.dumps(f)
        for v in undecided:
            keys = getattr(v, 'confirm', None) or [v.fn.split('.')[-1]]
            if v.fn and any(k and k in blob for k in keys) and 'may-write' not in str(v.detail) and 'may share' not in str(v.detail) and 'outside the shape domain' not in str(v.detail):
                lost.append(f'{v.fn}:{v.name}'[:110])
        payload['obligations_without_proof_on_this_tree'] = lost[:10]
        path = write_replay(pid, sig, payload)
        violations.append(f'VIOLATION property={pid} replay={path} clause={f.get("clause")}' + (f' lost_proof={lost[0].replace(" ", "_")}' if lost else ''))
    for l in known_lines:
        print(l)
    for v in undecided:
        print(f'UNDECIDED property={pid} obligation={v.fn}:{v.name} ({str(v.detail)[:160]}) -> bounded stand-in decides this clause')
    selftest = None
    if tier == 'thorough' and not os.environ.get('VT_NO_EVIDENCE') and not os.environ.get('VT_NO_SELFTEST'):
        try:
            from . import selftest as st_
            selftest = [dict(id=r.get('id'), expect=r.get('expect'), caught=r.get('caught'), error=r.get('error')) for r in st_.for_property(pid)]
        except Exception as e:
            selftest = [dict(error=f'{type(e).__name__}: {e}')]
    wall = time.time() - t0
    _evidence(pid, tier, seed, cfg, verdicts, bounded, len(violations), wall, selftest=selftest)
    if broken:
        for v in broken:
            print(f'CHECKER-BROKEN property={pid} canary {v.fn}:{v.name} was discharged')
        return 3
    nobl = len(obligations)
    if nobl == 0 and not bounded:
        print(f'CHECKER-BROKEN property={pid} zero obligations generated')
        return 3
    print(f'{pid} [{tier}] deductive: {len(discharged)}/{nobl} obligations discharged, {len(refuted)} refuted, '
          f'{len(undecided)} undecided, {len(canaries)} canaries ok; bounded: '
          f'{bounded["evaluations"] if bounded else 0} cases, {len(bfail)} failures; {wall:.1f}s')
    if bounded and bounded.get('not_evaluated'):
        print(f'NOTE property={pid} bounded stand-in stopped at its wall-clock budget: {bounded["not_evaluated"]} cases not evaluated')
    if violations:
        for l in violations:
            print(l)
        return 1
    return 0


def _search_failing_input(pid, v):
    """contract-directed native search for an input on which the refuted clause fires"""
    try:
        cmd = [NATIVE_PY, '-m', 'vt.runtime.fsearch', v.fn, v.name]
        p = subprocess.run(cmd, cwd=VERIF, env=native_env(), capture_output=True, text=True, timeout=300)
        if p.returncode == 1 and p.stdout.strip():
            return json.loads(p.stdout.strip().splitlines()[-1])
    except Exception:
        pass
    return None


def _all_hashes():
    import glob, hashlib
    out = {}
    for f in sorted(glob.glob(os.path.join(loader.repo_root(), 'pytenet', '*.py'))):
        out['pytenet/' + os.path.basename(f)] = hashlib.sha256(open(f, 'rb').read()).hexdigest()
    return out


def _claims(kind, pid):
    from .props import claims
    return getattr(claims, kind).get(pid, [])


def _evidence(pid, tier, seed, cfg, verdicts, bounded, nviol, wall, note='', selftest=None):
    if os.environ.get('VT_NO_EVIDENCE'):
        return
    obligations = [v for v in verdicts if not v.status.startswith('canary')]
    discharged = [v for v in obligations if v.status == 'discharged']
    backends = {}
    for v in verdicts:
        b = backends.setdefault(v.backend, dict(count=0, seconds=0.0))
        b['count'] += 1; b['seconds'] = round(b['seconds'] + v.seconds, 4)
    fns = sorted({v.fn for v in verdicts if v.fn})
    level = cfg.LEVEL
    cov = dict(
        obligations=len(obligations), discharged=len(discharged),
        refuted=[v.as_dict() for v in obligations if v.status == 'refuted'],
        undecided=[v.as_dict() for v in obligations if v.status == 'undecided'],
        canaries=[v.as_dict() for v in verdicts if v.status.startswith('canary')],
        checker_cmd=f'python3-vt -m vt.cli check {pid} --tier {tier}',
        trusted_base=TRUSTED_BASE,
        functions_under_contract=fns,
        backends=backends,
        obligation_list=[v.as_dict() for v in sorted(obligations, key=lambda v: (v.status == 'discharged', v.kind != 'ensures'))][:1200],   # postconditions first
        source_sha256=_all_hashes(),
        explanation=cfg.EXPLANATION + (' NOTE: ' + note if note else ''),
        assumed_contracts=_claims('ASSUMED', pid),
        decided_only_by_bounded_stand_in=_claims('BOUNDED_ONLY', pid),
        mutation_selftest=selftest,
    )
    if bounded:
        cov.update(evaluations=bounded['evaluations'], distinct_nontrivial=bounded['distinct_nontrivial'],
                   rule=bounded.get('rule', ''), samples=bounded.get('samples', [])[:6],
                   bounded=dict(label='BOUNDED stand-in, never counted as proved', bounds=bounded.get('bounds'),
                                kinds=bounded.get('kinds'), wall_s=round(bounded.get('wall_s', 0), 2), contract_monitor=bounded.get('monitor'),
                                failures=len(bounded.get('failures', [])), not_evaluated_budget_exhausted=bounded.get('not_evaluated', 0)),
                   exhaustive=bounded.get('exhaustive', False) and not bounded.get('not_evaluated', 0))
    else:
        cov.update(evaluations=len(obligations), distinct_nontrivial=len({(v.fn, v.name) for v in discharged}),
                   rule='deductive obligations only', samples=[v.as_dict() for v in discharged[:3]])
    ev = dict(property_id=pid, tier=tier, seed=seed, level=level, coverage=cov,
              assumptions=_claims('ASSUMED', pid) + ['exact arithmetic for all deductive obligations; floating-point behaviour only sampled by the bounded stand-in'],
              wall_s=round(wall, 2), violations=nviol)
    os.makedirs(os.path.join(VERIF, 'evidence'), exist_ok=True)
    json.dump(ev, open(os.path.join(VERIF, 'evidence', f'{pid}.json'), 'w'), indent=1, default=str)


def replay(path):
    rep = json.load(open(path))
    pid = rep['property']
    if 'case' not in rep:
        print(f'replay file names obligation {rep.get("function")}:{rep.get("obligation")} without a failing input; '
              f're-running the deductive check')
        cfg = importlib.import_module(f'vt.props.{pid}')
        vs = [v for v in cfg.deductive('quick') if v.fn == rep.get('function') and v.name == rep.get('obligation')]
        bad = [v for v in vs if v.status == 'refuted']
        print('still refuted' if bad else 'no longer refuted')
        return 1 if bad else 0
    cmd = [NATIVE_PY, '-m', 'vt.runtime.run', pid, '--replay', path]
    p = subprocess.run(cmd, cwd=VERIF, env=native_env(), text=True, capture_output=True)
    print(p.stdout[-3000:])
    if p.returncode == 1:
        print(f'VIOLATION property={pid} replay={path}')
    return p.returncode
