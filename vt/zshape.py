"""Engine Z, shape level, for the TDVP / DMRG sweeps: an MPS is a list of rank-3 arrays whose dimensions are z3
arrays indexed by the site (physical, left bond, right bond), charge lists are tracked by their lengths, operator
blocks BL/BR are lists of rank-3 arrays.  The real bodies of integrate_local_singlesite and
calculate_ground_state_local_singlesite are executed with sidecar invariants; discharged for every L, every number
of steps/sweeps and every bond profile:
  * every call into a function under contract satisfies the callee's shape precondition (no shape error can occur),
  * every index is in range, every assignment keeps ranks,
  * the class-invariant *shape part* (chain of bond dimensions, list lengths) holds again after every step,
  * no bond dimension ever exceeds its value in the (orthonormalized) input state  -- "single-site TDVP never increases
    a bond dimension", "bond dimensions of psi can only decrease" (DMRG doc string).
Values of tensors are not tracked here (see the T contracts of the local steps and the bounded stand-ins)."""
import ast, itertools, time
import z3
from . import loader
from .contract import Verdict
from .symexec import Exec, Unsupported, Refuted, State, Obj, SymRange, Unknown, Obligation
from .libz import LIB_Z, ZArr, ZScal, is_z, zint, oblige, fresh_int, z_getitem, z_setitem, z_len, z_binop, z_compare
from .smt import Solver, check_unsat

I = z3.IntSort(); ArrI = z3.ArraySort(I, I)
_c = itertools.count(1)


class SSeq:
    """list of arrays of a fixed rank; dims[a][k] = dimension of axis a of element k"""
    is_sseq = True
    def __init__(self, dims, length):
        self.dims = list(dims); self.length = length
    @staticmethod
    def fresh(rank, length, name='s'):
        n = next(_c)
        return SSeq([z3.Const(f'{name}{n}_{a}', ArrI) for a in range(rank)], length)

class LSeq:
    """list of 1-D integer arrays tracked by their lengths"""
    is_lseq = True
    def __init__(self, lens, length):
        self.lens = lens; self.length = length

class QL:
    """a charge vector of known length"""
    def __init__(self, n): self.n = n


def _idx(seq, k):
    if isinstance(k, int) and k < 0:
        return seq.length + k
    return zint(k)

def s_getitem(ex, st, node, base, key):
    if getattr(base, 'is_sseq', False):
        k = _idx(base, key)
        oblige(ex, st, node, 'index', f'{ast.unparse(node)[:40]}: index in range', z3.And(k >= 0, k < base.length))
        return ZArr(tuple(d[k] for d in base.dims))
    if getattr(base, 'is_lseq', False):
        if isinstance(key, slice):
            lo = key.start if key.start is not None else 0
            hi = key.stop
            if hi is None:
                raise Unsupported('open slice of a charge list')
            w = z3.simplify(zint(hi) - zint(lo))
            if not z3.is_int_value(w):
                raise Unsupported('slice of symbolic width')
            ks = [z3.simplify(zint(lo) + j) for j in range(w.as_long())]
            for k in ks:
                oblige(ex, st, node, 'index', f'{ast.unparse(node)[:40]}: slice within the list', z3.And(k >= 0, k < base.length))
            return tuple(QL(base.lens[k]) for k in ks)
        k = _idx(base, key)
        oblige(ex, st, node, 'index', f'{ast.unparse(node)[:40]}: index in range', z3.And(k >= 0, k < base.length))
        return QL(base.lens[k])
    return z_getitem(ex, st, node, base, key)

def s_setitem(ex, st, node, base, key, v):
    if getattr(base, 'is_sseq', False):
        k = _idx(base, key)
        oblige(ex, st, node, 'index', f'{ast.unparse(node)[:40]}: index in range', z3.And(k >= 0, k < base.length))
        if not getattr(v, 'is_zarr', False) or v.ndim != len(base.dims):
            ex.obligations.append(__import__('vt.symexec', fromlist=['Obligation']).Obligation('shape', f'{ast.unparse(node)[:40]}: rank of the stored tensor', node.lineno, False, 'rank mismatch'))
            raise Refuted('rank mismatch in store')
        return SSeq([z3.Store(d, k, zint(x)) for d, x in zip(base.dims, v.shape)], base.length)
    if getattr(base, 'is_lseq', False):
        k = _idx(base, key)
        oblige(ex, st, node, 'index', f'{ast.unparse(node)[:40]}: index in range', z3.And(k >= 0, k < base.length))
        if not isinstance(v, QL):
            raise Unsupported('store of a non-charge value into qD')
        return LSeq(z3.Store(base.lens, k, zint(v.n)), base.length)
    return z_setitem(ex, st, node, base, key, v)

def s_len(ex, st, node, args, kw):
    v = args[0]
    if getattr(v, 'is_sseq', False) or getattr(v, 'is_lseq', False):
        return v.length
    if isinstance(v, QL):
        return v.n
    return z_len(ex, st, node, args, kw)

def s_neg(ex, st, node, v):
    if isinstance(v, QL):
        return v
    if getattr(v, 'is_zarr', False):
        return v
    raise Unsupported('neg')

def qnumber_flatten(ex, st, node, args, kw):
    n = z3.IntVal(1)
    for q in args[0]:
        if not isinstance(q, QL):
            raise Unsupported('qnumber_flatten of non-charge')
        n = n * zint(q.n)
    return QL(n)

def K_qr(ex, st, node, args, kw):
    """shape face of K_qr (sizes proved from the body of qr by vt/zqr.py)"""
    M, q0, q1 = args
    ok = getattr(M, 'is_zarr', False) and M.ndim == 2
    if not ok:
        raise Refuted('qr of a non-matrix')
    oblige(ex, st, node, 'callee-pre', 'qr: len(q0) == A.shape[0]', zint(q0.n) == zint(M.shape[0]))
    oblige(ex, st, node, 'callee-pre', 'qr: len(q1) == A.shape[1]', zint(q1.n) == zint(M.shape[1]))
    oblige(ex, st, node, 'callee-pre', 'qr: A.shape >= (1, 1)', z3.And(zint(M.shape[0]) >= 1, zint(M.shape[1]) >= 1))
    D = fresh_int('Dq')
    st.pc.append(z3.And(D >= 1, D <= zint(M.shape[0]), D <= zint(M.shape[1])))
    return (ZArr((M.shape[0], D)), ZArr((D, M.shape[1])), QL(D))

def _numiter_forwarded(ex, st, node, args, kw, pos, name):
    """the requested number of local Krylov iterations reaches every local step ("for any number of local Krylov iterations")"""
    req = st.env.get('numiter_lanczos')
    if req is None:
        return
    got = args[pos] if len(args) > pos else kw.get('numiter')
    if got is None or not (is_z(got) or isinstance(got, int)):
        ex.obligations.append(Obligation('callee-pre', f'{name}: the caller passes its numiter_lanczos on', node.lineno, False,
                                         'the local step is called without the requested iteration count (a default of the helper would be used) (needs native confirmation)'))
        return
    oblige(ex, st, node, 'callee-pre', f'{name}: the caller passes its numiter_lanczos on', zint(got) == zint(req))


def K_local_ham_step(ex, st, node, args, kw):
    """_local_hamiltonian_step / _minimize_local_energy: L (a, w, a'), R (b, v, b'), W (e, d, w, v), A (d, a, b) -> same shape as A
    (the lambda passed to the Krylov routine maps vectors of length |A| to vectors of length |A| exactly under these conditions)"""
    Lb, Rb, W, A = args[:4]
    name = ast.unparse(node.func)
    for txt, f in [('L.ndim == R.ndim == A.ndim == 3, W.ndim == 4', Lb.ndim == 3 and Rb.ndim == 3 and W.ndim == 4 and A.ndim == 3)]:
        if not f:
            raise Refuted(f'{name}: ranks')
    conds = [('A.shape[0] == W.shape[1]', zint(A.shape[0]) == zint(W.shape[1])), ('W.shape[0] == W.shape[1]', zint(W.shape[0]) == zint(W.shape[1])),
             ('L.shape[0] == A.shape[1]', zint(Lb.shape[0]) == zint(A.shape[1])), ('L.shape[2] == A.shape[1]', zint(Lb.shape[2]) == zint(A.shape[1])),
             ('R.shape[0] == A.shape[2]', zint(Rb.shape[0]) == zint(A.shape[2])), ('R.shape[2] == A.shape[2]', zint(Rb.shape[2]) == zint(A.shape[2])),
             ('L.shape[1] == W.shape[2]', zint(Lb.shape[1]) == zint(W.shape[2])), ('R.shape[1] == W.shape[3]', zint(Rb.shape[1]) == zint(W.shape[3]))]
    for txt, f in conds:
        oblige(ex, st, node, 'callee-pre', f'{name}: {txt}', f)
    _numiter_forwarded(ex, st, node, args, kw, 4 if name.endswith('_minimize_local_energy') else 5, name)
    if name.endswith('_minimize_local_energy'):
        return (ZScal('real'), ZArr(A.shape))
    return ZArr(A.shape)

def K_local_bond_step(ex, st, node, args, kw):
    Lb, Rb, C = args[:3]
    conds = [('L.shape[0] == C.shape[0]', zint(Lb.shape[0]) == zint(C.shape[0])), ('L.shape[2] == C.shape[0]', zint(Lb.shape[2]) == zint(C.shape[0])),
             ('R.shape[0] == C.shape[1]', zint(Rb.shape[0]) == zint(C.shape[1])), ('R.shape[2] == C.shape[1]', zint(Rb.shape[2]) == zint(C.shape[1])),
             ('L.shape[1] == R.shape[1]', zint(Lb.shape[1]) == zint(Rb.shape[1]))]
    for txt, f in conds:
        oblige(ex, st, node, 'callee-pre', f'_local_bond_step: {txt}', f)
    _numiter_forwarded(ex, st, node, args, kw, 4, '_local_bond_step')
    return ZArr(C.shape)

def K_step_left(ex, st, node, args, kw):
    A, B, W, Lb = args
    conds = [('A.shape[0] == W.shape[1]', zint(A.shape[0]) == zint(W.shape[1])), ('B.shape[0] == W.shape[0]', zint(B.shape[0]) == zint(W.shape[0])),
             ('L.shape == (A.shape[1], W.shape[2], B.shape[1])', z3.And(zint(Lb.shape[0]) == zint(A.shape[1]), zint(Lb.shape[1]) == zint(W.shape[2]), zint(Lb.shape[2]) == zint(B.shape[1])))]
    for txt, f in conds:
        oblige(ex, st, node, 'callee-pre', f'contraction_operator_step_left: {txt}', f)
    return ZArr((A.shape[2], W.shape[3], B.shape[2]))

def K_step_right(ex, st, node, args, kw):
    A, B, W, Rb = args
    conds = [('A.shape[0] == W.shape[1]', zint(A.shape[0]) == zint(W.shape[1])), ('B.shape[0] == W.shape[0]', zint(B.shape[0]) == zint(W.shape[0])),
             ('R.shape == (A.shape[2], W.shape[3], B.shape[2])', z3.And(zint(Rb.shape[0]) == zint(A.shape[2]), zint(Rb.shape[1]) == zint(W.shape[3]), zint(Rb.shape[2]) == zint(B.shape[2])))]
    for txt, f in conds:
        oblige(ex, st, node, 'callee-pre', f'contraction_operator_step_right: {txt}', f)
    return ZArr((A.shape[1], W.shape[2], B.shape[1]))

def K_local_left_qr(ex, st, node, args, kw):
    """shape face of mps.local_orthonormalize_left_qr"""
    A, An, qd, qD = args
    q0, q1 = qD
    for txt, f in [('len(qd) == A.shape[0]', zint(qd.n) == zint(A.shape[0])), ('len(qD[0]) == A.shape[1]', zint(q0.n) == zint(A.shape[1])),
                   ('len(qD[1]) == A.shape[2]', zint(q1.n) == zint(A.shape[2])), ('Anext.shape[1] == A.shape[2]', zint(An.shape[1]) == zint(A.shape[2]))]:
        oblige(ex, st, node, 'callee-pre', f'local_orthonormalize_left_qr: {txt}', f)
    D = fresh_int('Dq')
    st.pc.append(z3.And(D >= 1, D <= zint(A.shape[0]) * zint(A.shape[1]), D <= zint(A.shape[2])))
    return (ZArr((A.shape[0], A.shape[1], D)), ZArr((An.shape[0], D, An.shape[2])), QL(D))

def K_local_right_qr(ex, st, node, args, kw):
    A, Ap, qd, qD = args
    q0, q1 = qD
    for txt, f in [('len(qd) == A.shape[0]', zint(qd.n) == zint(A.shape[0])), ('len(qD[0]) == A.shape[1]', zint(q0.n) == zint(A.shape[1])),
                   ('len(qD[1]) == A.shape[2]', zint(q1.n) == zint(A.shape[2])), ('Aprev.shape[2] == A.shape[1]', zint(Ap.shape[2]) == zint(A.shape[1]))]:
        oblige(ex, st, node, 'callee-pre', f'local_orthonormalize_right_qr: {txt}', f)
    D = fresh_int('Dq')
    st.pc.append(z3.And(D >= 1, D <= zint(A.shape[0]) * zint(A.shape[2]), D <= zint(A.shape[1])))
    return (ZArr((A.shape[0], D, A.shape[2])), ZArr((Ap.shape[0], Ap.shape[1], D)), QL(D))

def K_merge_mps(ex, st, node, args, kw):
    A0, A1 = args
    oblige(ex, st, node, 'callee-pre', 'merge_mps_tensor_pair: A0.shape[2] == A1.shape[1]', zint(A0.shape[2]) == zint(A1.shape[1]))
    return ZArr((zint(A0.shape[0]) * zint(A1.shape[0]), A0.shape[1], A1.shape[2]))

def K_merge_mpo(ex, st, node, args, kw):
    A0, A1 = args
    oblige(ex, st, node, 'callee-pre', 'merge_mpo_tensor_pair: A0.shape[3] == A1.shape[2]', zint(A0.shape[3]) == zint(A1.shape[2]))
    return ZArr((zint(A0.shape[0]) * zint(A1.shape[0]), zint(A0.shape[1]) * zint(A1.shape[1]), A0.shape[2], A1.shape[3]))

def K_split(ex, st, node, args, kw):
    """shape face of mps.split_mps_tensor (T contract + K_svd sizes); the new bond is non-empty for a non-zero tensor"""
    Am, qd0, qd1, qD = args[:4]
    q0, q2 = qD
    for txt, f in [('d0 * d1 == A.shape[0]', zint(qd0.n) * zint(qd1.n) == zint(Am.shape[0])), ('len(qD[0]) == A.shape[1]', zint(q0.n) == zint(Am.shape[1])),
                   ('len(qD[1]) == A.shape[2]', zint(q2.n) == zint(Am.shape[2]))]:
        oblige(ex, st, node, 'callee-pre', f'split_mps_tensor: {txt}', f)
    D = fresh_int('Ds')
    st.pc.append(z3.And(D >= 1, D <= zint(qd0.n) * zint(Am.shape[1]), D <= zint(qd1.n) * zint(Am.shape[2])))
    return (ZArr((qd0.n, Am.shape[1], D)), ZArr((qd1.n, D, Am.shape[2])), QL(D))


def np_einsum(ex, st, node, args, kw):
    ops = args
    pairs = []; k = 0
    while k + 1 < len(ops) and getattr(ops[k], 'is_zarr', False):
        pairs.append((ops[k], tuple(ops[k + 1]))); k += 2
    out = tuple(ops[k])
    dims = {}
    for t, labs in pairs:
        if len(labs) != t.ndim:
            raise Refuted('einsum: label count')
        for lab, d in zip(labs, t.shape):
            if lab in dims:
                oblige(ex, st, node, 'shape', f'{ast.unparse(node)[:50]}: label {lab} dimensions agree', zint(dims[lab]) == zint(d))
            else:
                dims[lab] = d
    return ZArr(tuple(dims[l] for l in out))

def m_transpose(ex, st, node, args, kw):
    a = args[0]
    perm = args[1] if len(args) == 2 else (tuple(args[1:]) if len(args) > 2 else tuple(reversed(range(a.ndim))))
    return ZArr(tuple(a.shape[p] for p in perm))

def np_array(ex, st, node, args, kw):
    v = args[0]; d = 0
    while isinstance(v, tuple) and len(v) == 1:
        v = v[0]; d += 1
    if v == 1:
        return ZArr((1,) * d)
    raise Unsupported('array literal')

def listcomp(ex, st, node, it):
    if isinstance(it, SymRange) and isinstance(node.elt, ast.Constant) and node.elt.value is None:
        return SSeq.fresh(3, zint(it.hi), 'BL')
    raise Unsupported('comprehension')

def is_qsparse(ex, st, node, args, kw):
    return Unknown('block sparsity is outside the shape domain')

def np_zeros(ex, st, node, args, kw):
    n = args[0]
    return ZArr((n,) if not isinstance(n, tuple) else n, 'real')

def g_dtype(ex, st, node, base):
    return 'dtype'


def K_orthonormalize(ex, st, node, args, kw):
    """shape face of MPS.orthonormalize (class invariant and bond bound proved by the sweep contracts of vt/zsweep.py)"""
    psi = args[0]
    L = psi.A.length; k = z3.Int('k')
    dP, Lf, Rt = psi.A.dims; Q = psi.qD.lens
    oblige(ex, st, node, 'callee-pre', 'orthonormalize: shape part of the class invariant', wf_shape(psi, psi.attrs['#d']))
    new = SSeq.fresh(3, L, 'A'); Q2 = z3.Const(f'Q{next(_c)}', ArrI)
    psi2 = Obj(psi.cls, dict(psi.attrs, A=new, qD=LSeq(Q2, psi.qD.length)))
    st.pc.append(wf_shape(psi2, psi.attrs['#d']))
    st.pc.append(z3.ForAll([k], z3.Implies(z3.And(0 <= k, k < L), z3.And(new.dims[1][k] <= Lf[k], new.dims[2][k] <= Rt[k]))))
    recv = node.func.value
    if not isinstance(recv, ast.Name):
        raise Unsupported('receiver')
    st.env[recv.id] = psi2
    st.env['#psi1'] = psi2
    nrm = ZScal('real')
    st.env['#nrm'] = nrm          # the callee's result: the norm of the input state (sweep contract of orthonormalize)
    return nrm

def K_right_blocks(ex, st, node, args, kw):
    """shape face of compute_right_operator_blocks (value = right fold: vt/zfold.py; block shapes from the step contracts)"""
    psi, H = args
    L = psi.A.length; k = z3.Int('k')
    oblige(ex, st, node, 'callee-pre', 'compute_right_operator_blocks: psi.nsites == op.nsites and chain of bond dimensions',
           z3.And(psi.A.length == H.A.length, wf_shape(psi, psi.attrs['#d']), wf_shape_mpo(H, psi.attrs['#d'])))
    BR = SSeq.fresh(3, L, 'BR')
    st.pc.append(z3.ForAll([k], z3.Implies(z3.And(0 <= k, k < L), blk(BR, k, psi.A.dims[2][k], H.A.dims[3][k]))))
    return BR


def blk(B, k, dpsi, dop):
    return z3.And(B.dims[0][k] == dpsi, B.dims[1][k] == dop, B.dims[2][k] == dpsi)

def wf_shape(psi, d):
    dP, Lf, Rt = psi.A.dims; Q = psi.qD.lens; L = psi.A.length; k = z3.Int('k')
    return z3.And(L >= 1, psi.qD.length == L + 1,
                  z3.ForAll([k], z3.Implies(z3.And(0 <= k, k < L), z3.And(dP[k] == d, Lf[k] >= 1, Rt[k] >= 1, Q[k] == Lf[k], Q[k + 1] == Rt[k]))),
                  z3.ForAll([k], z3.Implies(z3.And(0 <= k, k + 1 < L), Rt[k] == Lf[k + 1])),
                  Lf[0] == 1, Rt[L - 1] == 1)

def wf_shape_mpo(H, d):
    d0, d1, Wl, Wr = H.A.dims; L = H.A.length; k = z3.Int('k')
    return z3.And(L >= 1, z3.ForAll([k], z3.Implies(z3.And(0 <= k, k < L), z3.And(d0[k] == d, d1[k] == d, Wl[k] >= 1, Wr[k] >= 1))),
                  z3.ForAll([k], z3.Implies(z3.And(0 <= k, k + 1 < L), Wr[k] == Wl[k + 1])), Wl[0] == 1, Wr[L - 1] == 1)


LIB_SH = dict(LIB_Z)
LIB_SH.update({'getitem': s_getitem, 'setitem': s_setitem, 'len': s_len, 'neg': s_neg, 'qnumber_flatten': qnumber_flatten, 'np.einsum': np_einsum,
               '.transpose': m_transpose, 'np.transpose': m_transpose, 'np.array': np_array, 'listcomp': listcomp, 'is_qsparse': is_qsparse,
               'np.zeros': np_zeros, 'getattr.dtype': g_dtype})
CALLS = {'qr': K_qr, '_local_hamiltonian_step': K_local_ham_step, '_local_bond_step': K_local_bond_step, '_minimize_local_energy': K_local_ham_step,
         'contraction_operator_step_left': K_step_left, 'contraction_operator_step_right': K_step_right,
         'local_orthonormalize_left_qr': K_local_left_qr, 'local_orthonormalize_right_qr': K_local_right_qr,
         'MPS.orthonormalize': K_orthonormalize, 'compute_right_operator_blocks': K_right_blocks,
         'merge_mps_tensor_pair': K_merge_mps, 'merge_mpo_tensor_pair': K_merge_mpo, 'split_mps_tensor': K_split}


def shape_loop_handler(invariants, carried, stale):
    """invariant rule; `carried` = names of the state objects that the loops modify (psi, BL, BR, ...)"""
    def handler(ex, n, st):
        sig = loader.loop_signature(n)
        if sig not in invariants:
            stale.append(sig)
            raise Unsupported(f'no invariant for loop "{sig}" (contract stale)')
        inv = invariants[sig]
        it = ex.ev(n.iter, st)
        if not isinstance(it, SymRange) or not isinstance(n.target, ast.Name):
            raise Unsupported('loop shape')
        lo, hi = zint(it.lo), zint(it.hi)
        var = n.target.id
        at = (lambda c: lo + c) if not it.rev else (lambda c: hi - 1 - c)
        assigned = {x.id for s_ in n.body for x in ast.walk(s_) if isinstance(x, ast.Name) and isinstance(x.ctx, ast.Store)}
        def havoc(s):
            for nm in carried:
                cur = s.env.get(nm)
                if isinstance(cur, Obj):
                    s.env[nm] = Obj(cur.cls, dict(cur.attrs, A=SSeq.fresh(len(cur.A.dims), cur.A.length, nm), qD=LSeq(z3.Const(f'Q{next(_c)}', ArrI), cur.qD.length)))
                elif getattr(cur, 'is_sseq', False):
                    s.env[nm] = SSeq.fresh(len(cur.dims), cur.length, nm)
            for nm in assigned - set(carried) - {var}:
                cur = s.env.get(nm)
                if cur is None or getattr(cur, 'is_zarr', False) or isinstance(cur, QL):
                    s.env[nm] = __import__('vt.libz', fromlist=['Unbound']).Unbound(nm)
                elif getattr(cur, 'is_zscal', False):
                    s.env[nm] = ZScal()
                elif is_z(cur) or isinstance(cur, int):
                    s.env[nm] = fresh_int(nm)
        oblige(ex, st, n, 'invariant', f'{sig}: invariant holds on entry', inv(st.env, z3.IntVal(0), at(z3.IntVal(0))))
        head = st.fork(); havoc(head)
        c = fresh_int('iter')
        head.pc.append(z3.And(c >= 0, c < hi - lo))
        head.env[var] = at(c)
        head.pc.append(inv(head.env, c, at(c)))
        for s in ex.block(n.body, [head]):
            if s.done:
                raise Unsupported('return inside loop')
            oblige(ex, s, n, 'invariant', f'{sig}: invariant preserved', inv(s.env, c + 1, at(c + 1)))
        after = st.fork(); havoc(after)
        tot = z3.If(hi - lo > 0, hi - lo, 0)
        after.pc.append(inv(after.env, tot, at(tot)))
        after.env[var] = fresh_int(var)
        return [after]
    return handler


def tdvp_singlesite_contract():
    fn = 'evolution.integrate_local_singlesite'
    L = z3.Int('L'); d = z3.Int('d'); numsteps = z3.Int('numsteps'); k = z3.Int('k')
    A0 = SSeq([z3.Const(f'psi0_{a}', ArrI) for a in range(3)], L)
    psi0 = Obj('MPS', {'A': A0, 'qD': LSeq(z3.Const('Qpsi0', ArrI), L + 1), 'qd': QL(d), 'nsites': L, '#d': d})
    HA = SSeq([z3.Const(f'H_{a}', ArrI) for a in range(4)], L)
    H = Obj('MPO', {'A': HA, 'qD': LSeq(z3.Const('QH', ArrI), L + 1), 'qd': QL(d), 'nsites': L, '#d': d})
    pre = [d >= 1, numsteps >= 0, wf_shape(psi0, d), wf_shape_mpo(H, d)]
    Wl, Wr = HA.dims[2], HA.dims[3]

    def le_input(psi):
        return z3.ForAll([k], z3.Implies(z3.And(0 <= k, k < L), z3.And(psi.A.dims[1][k] <= A0.dims[1][k], psi.A.dims[2][k] <= A0.dims[2][k])))
    def br_valid(env, lo):
        psi = env['psi']; BR = env['BR']
        return z3.ForAll([k], z3.Implies(z3.And(lo <= k, k < L), blk(BR, k, psi.A.dims[2][k], Wr[k])))
    def bl_valid(env, hi):
        psi = env['psi']; BL = env['BL']
        return z3.ForAll([k], z3.Implies(z3.And(0 <= k, k <= hi), blk(BL, k, psi.A.dims[1][k], Wl[k])))
    def base(env):
        psi = env['psi']
        return z3.And(wf_shape(psi, d), le_input(psi), env['BL'].length == L, env['BR'].length == L)
    inv = {
        'for i in range(len(BR))': lambda env, c, i: z3.And(base(env), br_valid(env, 0), bl_valid(env, 0)),
        'for n in range(numsteps)': lambda env, c, i: z3.And(base(env), br_valid(env, 0), bl_valid(env, 0)),
        'for i in range(L - 1)': lambda env, c, i: z3.And(base(env), br_valid(env, c), bl_valid(env, c)),
        'for i in reversed(range(1, L))': lambda env, c, i: z3.And(base(env), br_valid(env, L - 1 - c), bl_valid(env, L - 1 - c)),
    }
    def post(ret, env):
        psi = env['psi']
        return [('shape_part_of_class_invariant', wf_shape(psi, d)),
                ('no_bond_dimension_exceeds_the_input', le_input(psi)),
                ('hamiltonian_shapes_untouched', z3.BoolVal(env['H'] is H)),
                ('returns_the_norm_of_the_input_state', z3.BoolVal(ret is env.get('#nrm')))]
    numiter = z3.Int('numiter_lanczos'); pre = pre + [numiter >= 1]
    return dict(fn=fn, env={'H': H, 'psi': psi0, 'dt': ZScal(), 'numsteps': numsteps, 'numiter_lanczos': numiter}, pre=pre, inv=inv, carried=['psi', 'BL', 'BR'], post=post,
                skip_asserts=['is_qsparse(BR[i], [psi.qD[i + 1], H.qD[i + 1], -psi.qD[i + 1]])'])


def dmrg_singlesite_contract():
    fn = 'minimization.calculate_ground_state_local_singlesite'
    c0 = tdvp_singlesite_contract()
    env = dict(c0['env']); env.pop('dt'); env['numsweeps'] = env.pop('numsteps')
    inv = dict(c0['inv'])
    inv['for n in range(numsweeps)'] = inv.pop('for n in range(numsteps)')
    return dict(fn=fn, env=env, pre=c0['pre'] + [], inv=inv, carried=['psi', 'BL', 'BR'], post=lambda ret, e: c0['post'](ret, e)[:2], skip_asserts=c0['skip_asserts'])


def twosite_contract(kind):
    fn = 'evolution.integrate_local_twosite' if kind == 'tdvp' else 'minimization.calculate_ground_state_local_twosite'
    c0 = tdvp_singlesite_contract()
    env = dict(c0['env']); H = env['H']; psi0 = env['psi']
    L = psi0.A.length; d = psi0.attrs['#d']; k = z3.Int('k')
    Wl, Wr = H.A.dims[2], H.A.dims[3]
    env['tol_split'] = z3.Real('tol_split')
    if kind != 'tdvp':
        env.pop('dt'); env['numsweeps'] = env.pop('numsteps')
    def br_valid(e, lo):
        psi = e['psi']; BR = e['BR']
        return z3.ForAll([k], z3.Implies(z3.And(lo <= k, k < L), blk(BR, k, psi.A.dims[2][k], Wr[k])))
    def bl_valid(e, hi):
        psi = e['psi']; BL = e['BL']
        return z3.ForAll([k], z3.Implies(z3.And(0 <= k, k <= hi), blk(BL, k, psi.A.dims[1][k], Wl[k])))
    def base(e):
        return z3.And(wf_shape(e['psi'], d), e['BL'].length == L, e['BR'].length == L, L >= 2, blk(e['BL'], 0, 1, 1))
    outer = 'for n in range(numsteps)' if kind == 'tdvp' else 'for n in range(numsweeps)'
    inv = {'for i in range(len(BR))': lambda e, c, i: z3.And(base(e), br_valid(e, 0), bl_valid(e, 0)),
           outer: lambda e, c, i: z3.And(base(e), br_valid(e, 0), bl_valid(e, 0)),
           'for i in range(L - 2)': lambda e, c, i: z3.And(base(e), br_valid(e, c + 1), bl_valid(e, c))}
    if kind == 'tdvp':
        inv['for i in reversed(range(L - 2))'] = lambda e, c, i: z3.And(base(e), br_valid(e, L - 2 - c), bl_valid(e, L - 2 - c))
    else:
        inv['for i in reversed(range(L - 1))'] = lambda e, c, i: z3.And(base(e), br_valid(e, L - 1 - c), bl_valid(e, L - 2 - c))
    return dict(fn=fn, env=env, pre=c0['pre'] + [L >= 2], inv=inv, carried=['psi', 'BL', 'BR'],
                post=lambda ret, e: [('shape_part_of_class_invariant', wf_shape(e['psi'], d))] + ([('returns_the_norm_of_the_input_state', z3.BoolVal(ret is e.get('#nrm')))] if kind == 'tdvp' else []), skip_asserts=c0['skip_asserts'],
                assume_asserts=['L >= 2'])


def verify_one(spec):
    from . import smt
    smt.EXTERNAL[0] = True
    fn = spec['fn']; out = []; t0 = time.time()
    fnode = loader.function(fn)
    solver = Solver()
    stale = []
    ex = Exec(lib=dict(LIB_SH), calls=CALLS, mode='Z', solver=solver, loop_handler=shape_loop_handler(spec['inv'], spec['carried'], stale), fname=fn)
    ex.assume_asserts = set(spec.get('assume_asserts', ()))
    st = State(dict(spec['env']), list(spec['pre']))
    key = fn.split('.')[-1]
    try:
        states = ex.block(fnode.body, [st])
    except Refuted as e:
        v = Verdict('executes', 'Z', 'refuted', str(e) + ' (needs native confirmation)', time.time() - t0, fn, 'safety', 'z3'); v.confirm = [key]
        return [v]
    except Unsupported as e:
        return [Verdict('executes', 'Z', 'undecided', f'outside fragment: {e}', time.time() - t0, fn, 'safety', 'z3')]
    for ob in ex.obligations:
        status = 'discharged' if ob.holds is True else 'refuted' if ob.holds is False else 'undecided'
        if ob.kind == 'assert' and ob.text in spec.get('skip_asserts', ()):
            status = 'undecided'; ob.detail = 'block sparsity of the environment blocks is outside the shape domain (bounded stand-in)'
        v = Verdict(f'{ob.kind}@{ob.lineno}: {ob.text[:80]}', 'Z', status, ob.detail + (' (needs native confirmation: quantified counter-model)' if status == 'refuted' else ''),
                    0.0, fn, ob.kind, 'z3')
        v.confirm = [key]
        out.append(v)
    finals = [s for s in states if s.done and s.raised is None and solver.feasible(s.pc)]
    if not finals:
        out.append(Verdict('returns', 'Z', 'undecided', 'no returning path', 0, fn, 'ensures', 'z3'))
    agg = {}
    for s in finals:
        for name, f in spec['post'](s.ret, s.env):
            agg.setdefault(name, []).append(solver.implied([p for p in s.pc if is_z(p)], f, final=True))
    for name, rs in agg.items():
        status = 'discharged' if all(r is True for r in rs) else 'refuted' if any(r is False for r in rs) else 'undecided'
        v = Verdict(name, 'Z', status, f'{len(rs)} return paths' + (' (needs native confirmation: quantified counter-model)' if status == 'refuted' else ''), 0, fn, 'ensures', 'z3')
        v.confirm = [key]
        out.append(v)
    tot = time.time() - t0
    for v in out:
        v.seconds = tot / max(1, len(out))
    return out


CONTRACTS = {'tdvp1': (tdvp_singlesite_contract, ('C08', 'C02', 'C09')), 'dmrg1': (dmrg_singlesite_contract, ('C10', 'C02')),
             'tdvp2': (lambda: twosite_contract('tdvp'), ('C08', 'C02', 'C09')), 'dmrg2': (lambda: twosite_contract('dmrg'), ('C10', 'C02'))}


def verify(prop, only=None):
    out = []
    for name, (mk, props) in CONTRACTS.items():
        if prop in props and (only is None or only == name):
            try:
                out += verify_one(mk())
            except Exception as e:
                import traceback
                out.append(Verdict('sweep_shapes', 'Z', 'undecided', f'executor error: {type(e).__name__}: {e} {traceback.format_exc()[-500:]}', 0, name, 'ensures', 'z3'))
    return out
