"""Engine T lemmas: the per-site tensor identities that the Lean fold lemmas (vt/lemmas/Folds.lean) take as
hypotheses.  Where the step of the fold is a function of the repository (merge_mps_tensor_pair,
contraction_step_right, ...) the *real* function body is executed symbolically, so a change of that
function invalidates the lemma.  An abstract multi-index ('Sig...') stands for "all physical indices
to the left/right", which makes every identity valid for every number of sites.

Also: engine L (Lean) status -- the lemma files are compiled by `setup` / the thorough tier; the quick tier
checks the stamp."""
import hashlib, json, os, subprocess, time
from fractions import Fraction
from . import tensor as T
from . import loader
from .contract import Verdict
from .symexec import Exec, State, Unsupported, Refuted
from .libt import LIB_T

HERE = os.path.dirname(os.path.abspath(__file__))


def call(fn, **args):
    """symbolically execute a real pytenet function (engine T) and return its value"""
    fnode = loader.function(fn)
    ex = Exec(lib=dict(LIB_T), mode='T', fname=fn)
    env = dict(args); env.setdefault('#rules', []); env.setdefault('#support', {})
    outs = ex.run_function(fnode, env)
    fin = [s for s in outs if s.done and s.raised is None]
    if len(fin) != 1:
        raise Unsupported(f'{fn}: {len(fin)} returning paths')
    bad = [o for o in ex.obligations if o.holds is not True]
    if bad:
        raise Refuted(f'{fn}: assertion {bad[0].text} not established')
    return fin[0].ret


def rule(lhs, rhs):
    return (lhs, rhs)


LEMMAS = []

def lemma(name, props, lean, uses):
    def deco(f):
        LEMMAS.append(dict(name=name, props=props, lean=lean, uses=uses, f=f))
        return f
    return deco


def eq(a, b, rules=()):
    a = T.rewrite(a, list(rules)); b = T.rewrite(b, list(rules))
    ex = []
    ok = T.equal(a, b, ex)
    return ok, (f"certificate with {len(ex[-1]['certificate'])} matched terms" if ok and isinstance(ex[-1], dict) else str(ex[-1])[:300])


# ---- L-pair ----------------------------------------------------------------------------------------

@lemma('L-pair[MPS]: two sites enter the dense vector only through their merged tensor', ('C01', 'C13', 'C03'),
       'VT.foldl_pair', ['mps.merge_mps_tensor_pair'])
def l_pair_mps():
    P = T.inp('P', ('Sig', 'Dl', 'D0'))
    a, b = T.inp('a', ('d', 'D0', 'D1')), T.inp('b', ('e', 'D1', 'D2'))
    a2, b2 = T.inp('a2', ('d', 'D0', 'Dn')), T.inp('b2', ('e', 'Dn', 'D2'))
    r = rule(T.einsum_str('sac,tcb->stab', a2, b2), T.einsum_str('sac,tcb->stab', a, b))
    step = lambda X, Y: call('mps.merge_mps_tensor_pair', A0=X, A1=Y)
    return eq(step(step(P, a2), b2), step(step(P, a), b), [r])

@lemma('L-pair[MPO]', ('C01', 'C03'), 'VT.foldl_pair', ['mpo.merge_mpo_tensor_pair'])
def l_pair_mpo():
    P = T.inp('P', ('Sig', 'Tau', 'Dl', 'D0'))
    a, b = T.inp('a', ('d', 'd', 'D0', 'D1')), T.inp('b', ('e', 'e', 'D1', 'D2'))
    a2, b2 = T.inp('a2', ('d', 'd', 'D0', 'Dn')), T.inp('b2', ('e', 'e', 'Dn', 'D2'))
    r = rule(T.einsum_str('stac,uvcb->stuvab', a2, b2), T.einsum_str('stac,uvcb->stuvab', a, b))
    step = lambda X, Y: call('mpo.merge_mpo_tensor_pair', A0=X, A1=Y)
    return eq(step(step(P, a2), b2), step(step(P, a), b), [r])


# ---- L-iso / norm ----------------------------------------------------------------------------------

@lemma('L-iso[MPS]: a left-isometric site keeps the Gram matrix of the prefix equal to the identity', ('C01', 'C13', 'C08', 'C10'),
       'VT.foldl_invariant', ['mps.merge_mps_tensor_pair'])
def l_iso_mps():
    P = T.inp('P', ('Sig', 'Dl', 'D0')); a = T.inp('a', ('d', 'D0', 'D1'))
    gP = rule(T.einsum_str('xla*,xlb->ab', P, P), T.identity('D0'))
    ga = rule(T.einsum_str('sac*,sad->cd', a, a), T.identity('D1'))
    Q = call('mps.merge_mps_tensor_pair', A0=P, A1=a)
    return eq(T.einsum_str('xla*,xlb->ab', Q, Q), T.identity('D1'), [gP, ga])

@lemma('L-norm[MPS]: behind an isometric prefix the norm of the state is the Frobenius norm of the last tensor', ('C01', 'C13'),
       'VT.foldl_invariant', ['mps.merge_mps_tensor_pair'])
def l_norm_mps():
    P = T.inp('P', ('Sig', 'Dl', 'D0')); a = T.inp('a', ('d', 'D0', 'D1'))
    gP = rule(T.einsum_str('xla*,xlb->ab', P, P), T.identity('D0'))
    Q = call('mps.merge_mps_tensor_pair', A0=P, A1=a)
    return eq(T.einsum_str('xlb*,xlb->', Q, Q), T.einsum_str('sab*,sab->', a, a), [gP])

@lemma('L-iso[MPO]', ('C01',), 'VT.foldl_invariant', ['mpo.merge_mpo_tensor_pair'])
def l_iso_mpo():
    P = T.inp('P', ('Sig', 'Tau', 'Dl', 'D0')); a = T.inp('a', ('d', 'd', 'D0', 'D1'))
    gP = rule(T.einsum_str('xyla*,xylb->ab', P, P), T.identity('D0'))
    ga = rule(T.einsum_str('stac*,stad->cd', a, a), T.identity('D1'))
    Q = call('mpo.merge_mpo_tensor_pair', A0=P, A1=a)
    return eq(T.einsum_str('xyla*,xylb->ab', Q, Q), T.identity('D1'), [gP, ga])

@lemma('L-scale: scaling one site scales the dense vector (sign flip of the last tensor, phase absorption)', ('C01', 'C13'),
       'VT.foldl_site_map', ['mps.merge_mps_tensor_pair'])
def l_scale():
    P = T.inp('P', ('Sig', 'Dl', 'D0')); a = T.inp('a', ('d', 'D0', 'D1')); c = T.scalar('c')
    step = lambda X, Y: call('mps.merge_mps_tensor_pair', A0=X, A1=Y)
    ok1, d1 = eq(step(P, T.mul_scalar(a, c)), T.mul_scalar(step(P, a), c))
    ok2, d2 = eq(step(T.mul_scalar(P, c), a), T.mul_scalar(step(P, a), c))
    return ok1 and ok2, f'{d1}; {d2}'


# ---- right folds of operation.py ---------------------------------------------------------------------

@lemma('L-vdot: the running block of vdot is the contraction of the two suffix tensors (first argument conjugated)', ('C04',),
       'VT.foldl_rel2', ['operation.contraction_step_right'])
def l_vdot():
    Sp = T.inp('Spsi', ('Db', 'Sig')); Sc = T.inp('Schi', ('Dc', 'Sig'))
    IH = T.einsum_str('bx,cx*->bc', Sp, Sc)
    A = T.inp('A', ('d', 'Da', 'Db')); B = T.inp('B', ('d', 'Dk', 'Dc'))
    Rn = call('operation.contraction_step_right', A=A, B=B, R=IH)
    claim = T.einsum_str('sab,bx,skc*,cx*->ak', A, Sp, B, Sc)
    return eq(Rn, claim)

@lemma('L-avg: the running block of operator_average / operator_inner_product is <chi-suffix| op-suffix |psi-suffix>', ('C04', 'C08', 'C10'),
       'VT.foldl_rel3', ['operation.contraction_operator_step_right'])
def l_avg():
    Sp = T.inp('Spsi', ('Db', 'Sig')); Sc = T.inp('Schi', ('Dc', 'Tau')); So = T.inp('Sop', ('Dv', 'Tau', 'Sig'))
    IH = T.einsum_str('bx,vyx,cy*->bvc', Sp, So, Sc)
    A = T.inp('A', ('d', 'Da', 'Db')); B = T.inp('B', ('e', 'Dk', 'Dc')); W = T.inp('W', ('e', 'd', 'Dw', 'Dv'))
    Rn = call('operation.contraction_operator_step_right', A=A, B=B, W=W, R=IH)
    claim = T.einsum_str('sab,bx,tswv,vyx,tkc*,cy*->awk', A, Sp, W, So, B, Sc)
    return eq(Rn, claim)

@lemma('L-avg-left: the left operator block is <chi-prefix| op-prefix |psi-prefix>', ('C04', 'C08', 'C10'),
       'VT.foldl_rel3', ['operation.contraction_operator_step_left'])
def l_avg_left():
    Pp = T.inp('Ppsi', ('Sig', 'Da')); Pc = T.inp('Pchi', ('Tau', 'Dk')); Po = T.inp('Pop', ('Tau', 'Sig', 'Dw'))
    IH = T.einsum_str('xa,yxw,yk*->awk', Pp, Po, Pc)
    A = T.inp('A', ('d', 'Da', 'Db')); B = T.inp('B', ('e', 'Dk', 'Dc')); W = T.inp('W', ('e', 'd', 'Dw', 'Dv'))
    Ln = call('operation.contraction_operator_step_left', A=A, B=B, W=W, L=IH)
    claim = T.einsum_str('xa,sab,yxw,tswv,yk*,tkc*->bvc', Pp, A, Po, W, Pc, B)
    return eq(Ln, claim)

@lemma('L-tr: the running block of operator_density_average is the partial trace of the product of the suffixes', ('C04',),
       'VT.foldl_rel2', ['operation.contraction_operator_density_step_right'])
def l_tr():
    Sr = T.inp('Srho', ('Db', 'Sig', 'Tau')); So = T.inp('Sop', ('Dv', 'Tau', 'Sig'))
    IH = T.einsum_str('bxy,vyx->bv', Sr, So)
    A = T.inp('A', ('d', 'e', 'Da', 'Db')); W = T.inp('W', ('e', 'd', 'Dw', 'Dv'))
    Rn = call('operation.contraction_operator_density_step_right', A=A, W=W, R=IH)
    claim = T.einsum_str('stab,bxy,tswv,vyx->aw', A, Sr, W, So)
    return eq(Rn, claim)

@lemma('L-env: the effective local Hamiltonian is the projection of the full operator (one-site)', ('C04', 'C08', 'C10'),
       'VT.foldl_rel3', ['operation.apply_local_hamiltonian'])
def l_env():
    Pp = T.inp('Ppsi', ('Sig', 'Da')); Pc = T.inp('Pchi', ('Tau', 'Dk')); Po = T.inp('Pop', ('Tau', 'Sig', 'Dw'))
    Sp = T.inp('Spsi', ('Db', 'Sig2')); Sc = T.inp('Schi', ('Dc', 'Tau2')); So = T.inp('Sop', ('Dv', 'Tau2', 'Sig2'))
    BL = T.einsum_str('xa,yxw,yk*->awk', Pp, Po, Pc)
    BR = T.einsum_str('bx,vyx,cy*->bvc', Sp, So, Sc)
    X = T.inp('X', ('d', 'Da', 'Db')); Y = T.inp('Y', ('e', 'Dk', 'Dc')); W = T.inp('W', ('e', 'd', 'Dw', 'Dv'))
    HX = call('operation.apply_local_hamiltonian', L=BL, R=BR, W=W, A=X)
    lhs = T.einsum_str('tkc*,tkc->', Y, HX)
    # <chi[Y]| O |psi[X]> with chi[Y] = Pchi . Y . Schi, psi[X] = Ppsi . X . Spsi, O = Pop . W . Sop
    rhs = T.einsum_str('yk*,tkc*,cz*,yxw,tswv,vzu,xa,sab,bu->', Pc, Y, Sc, Po, W, So, Pp, X, Sp)
    return eq(lhs, rhs)

@lemma('L-env-bond: the zero-site (bond) effective operator is the projection of the full operator', ('C04', 'C08'),
       'VT.foldl_rel3', ['operation.apply_local_bond_contraction'])
def l_env_bond():
    Pp = T.inp('Ppsi', ('Sig', 'Da')); Pc = T.inp('Pchi', ('Tau', 'Dk')); Po = T.inp('Pop', ('Tau', 'Sig', 'Dw'))
    Sp = T.inp('Spsi', ('Db', 'Sig2')); Sc = T.inp('Schi', ('Dc', 'Tau2')); So = T.inp('Sop', ('Dw', 'Tau2', 'Sig2'))
    BL = T.einsum_str('xa,yxw,yk*->awk', Pp, Po, Pc)
    BR = T.einsum_str('bx,vyx,cy*->bvc', Sp, So, Sc)
    C = T.inp('C', ('Da', 'Db')); Y = T.inp('Y', ('Dk', 'Dc'))
    HC = call('operation.apply_local_bond_contraction', L=BL, R=BR, C=C)
    lhs = T.einsum_str('kc*,kc->', Y, HC)
    rhs = T.einsum_str('yk*,kc*,cz*,yxw,wzu,xa,ab,bu->', Pc, Y, Sc, Po, So, Pp, C, Sp)
    return eq(lhs, rhs)

# ---- L-sum / L-prod ----------------------------------------------------------------------------------

def _blockdiag(a, b):
    from .contracts.arith import blockdiag
    return blockdiag(a, b)

@lemma('L-sum[MPS]: the prefix of a sum is the concatenation of the prefixes; the last site adds them', ('C03',),
       'VT.foldl_rel3', ['mps.merge_mps_tensor_pair'])
def l_sum_mps():
    P0 = T.inp('P0', ('Sig', 'Dl', 'E0')); P1 = T.inp('P1', ('Sig', 'Dl', 'F0')); al = T.scalar('alpha')
    a0 = T.inp('a0', ('d', 'E0', 'E1')); a1 = T.inp('a1', ('d', 'F0', 'F1'))
    step = lambda X, Y: call('mps.merge_mps_tensor_pair', A0=X, A1=Y)
    P = T.block_concat([P0, T.mul_scalar(P1, al)], -1)
    ok1, d1 = eq(step(P, _blockdiag(a0, a1)), T.block_concat([step(P0, a0), T.mul_scalar(step(P1, a1), al)], -1))
    z0 = T.inp('z0', ('d', 'E0', 'Dr')); z1 = T.inp('z1', ('d', 'F0', 'Dr'))
    ok2, d2 = eq(step(P, T.block_concat([z0, z1], -2)), T.add(step(P0, z0), T.mul_scalar(step(P1, z1), al)))
    return ok1 and ok2, f'middle: {d1}; last: {d2}'

@lemma('L-sum[MPO]', ('C03',), 'VT.foldl_rel3', ['mpo.merge_mpo_tensor_pair'])
def l_sum_mpo():
    P0 = T.inp('P0', ('Sig', 'Tau', 'Dl', 'E0')); P1 = T.inp('P1', ('Sig', 'Tau', 'Dl', 'F0')); al = T.scalar('alpha')
    a0 = T.inp('a0', ('d', 'd', 'E0', 'E1')); a1 = T.inp('a1', ('d', 'd', 'F0', 'F1'))
    step = lambda X, Y: call('mpo.merge_mpo_tensor_pair', A0=X, A1=Y)
    P = T.block_concat([P0, T.mul_scalar(P1, al)], -1)
    ok1, d1 = eq(step(P, _blockdiag(a0, a1)), T.block_concat([step(P0, a0), T.mul_scalar(step(P1, a1), al)], -1))
    z0 = T.inp('z0', ('d', 'd', 'E0', 'Dr')); z1 = T.inp('z1', ('d', 'd', 'F0', 'Dr'))
    ok2, d2 = eq(step(P, T.block_concat([z0, z1], -2)), T.add(step(P0, z0), T.mul_scalar(step(P1, z1), al)))
    return ok1 and ok2, f'middle: {d1}; last: {d2}'

@lemma('L-prod[apply]: the prefix of op|psi> is the contraction of the operator and state prefixes over the physical legs', ('C03',),
       'VT.foldl_rel3', ['mps.merge_mps_tensor_pair', 'mpo.merge_mpo_tensor_pair'])
def l_prod_apply():
    from .contracts.arith import group
    Po = T.inp('Pop', ('Tau', 'Sig', 'Dl', 'W0')); Pp = T.inp('Ppsi', ('Sig', 'Dl', 'D0'))
    w = T.inp('w', ('e', 'd', 'W0', 'W1')); a = T.inp('a', ('d', 'D0', 'D1'))
    P = group(T.einsum_str('yxlw,xla->ylwa', Po, Pp), (1, 1, 2))        # fused prefix [tau, 1, (w a)]
    site = group(T.einsum_str('stwv,tab->swavb', w, a), (1, 2, 2))          # what apply_operator stores (contract, proved on the real code)
    lhs = call('mps.merge_mps_tensor_pair', A0=P, A1=site)
    Po2 = call('mpo.merge_mpo_tensor_pair', A0=Po, A1=w); Pp2 = call('mps.merge_mps_tensor_pair', A0=Pp, A1=a)
    rhs = group(T.einsum_str('yxlw,xla->ylwa', Po2, Pp2), (1, 1, 2))
    return eq(lhs, rhs)

@lemma('L-prod[matmul]: the prefix of op0 @ op1 is the product of the prefixes', ('C03',),
       'VT.foldl_rel3', ['mpo.merge_mpo_tensor_pair'])
def l_prod_matmul():
    from .contracts.arith import group
    P0 = T.inp('P0', ('Sig', 'Tau', 'Dl', 'V0')); P1 = T.inp('P1', ('Tau', 'Ups', 'Dl', 'W0'))
    a = T.inp('a', ('d', 'd', 'V0', 'V1')); b = T.inp('b', ('d', 'd', 'W0', 'W1'))
    P = group(T.einsum_str('xylv,yzlw->xzlvw', P0, P1), (1, 1, 1, 2))
    site = group(T.einsum_str('stab,tuvw->suavbw', a, b), (1, 1, 2, 2))
    step = lambda X, Y: call('mpo.merge_mpo_tensor_pair', A0=X, A1=Y)
    lhs = step(P, site)
    rhs = group(T.einsum_str('xylv,yzlw->xzlvw', step(P0, a), step(P1, b)), (1, 1, 1, 2))
    return eq(lhs, rhs)


# ---- engine L status ---------------------------------------------------------------------------------

LEAN_FILES = {'Folds.lean': ('C01', 'C03', 'C04', 'C13', 'C08', 'C10'), 'Duality.lean': ('C18', 'C20', 'C05'), 'Sums.lean': ('C11', 'C12'), 'Krylov.lean': ('C14', 'C15', 'C08', 'C10')}

def lean_stamp_path():
    return os.path.join(os.path.dirname(HERE), 'build', 'lean_stamp.json')

def lean_hash(fn):
    return hashlib.sha256(open(os.path.join(HERE, 'lemmas', fn), 'rb').read()).hexdigest()

def compile_lean(fn, timeout=1500):
    t0 = time.time()
    p = subprocess.run(['lean', fn], cwd=os.path.join(HERE, 'lemmas'), capture_output=True, text=True, timeout=timeout)
    txt = (p.stdout + p.stderr).strip()
    ok = p.returncode == 0 and 'error' not in txt and 'sorry' not in txt
    return ok, txt[-500:], time.time() - t0

def lean_verdicts(prop, tier):
    out = []
    stamp = {}
    if os.path.exists(lean_stamp_path()):
        try:
            stamp = json.load(open(lean_stamp_path()))
        except Exception:
            stamp = {}
    for fn, props in LEAN_FILES.items():
        if prop not in props:
            continue
        h = lean_hash(fn)
        src = open(os.path.join(HERE, 'lemmas', fn)).read()
        if 'sorry' in src or 'axiom ' in src:
            out.append(Verdict(f'lean:{fn}', 'L', 'undecided', 'lemma file contains sorry/axiom', 0, f'lemmas/{fn}', 'lemma', 'lean'))
            continue
        if tier == 'thorough' or stamp.get(fn, {}).get('sha256') != h:
            try:
                ok, txt, dt = compile_lean(fn)
            except Exception as e:
                ok, txt, dt = False, f'{type(e).__name__}: {e}', 0
            if ok:
                stamp[fn] = dict(sha256=h, seconds=round(dt, 1))
                os.makedirs(os.path.dirname(lean_stamp_path()), exist_ok=True)
                json.dump(stamp, open(lean_stamp_path(), 'w'))
            out.append(Verdict(f'lean:{fn}', 'L', 'discharged' if ok else 'undecided', 'accepted by Lean 4.33' if ok else txt, dt, f'lemmas/{fn}', 'lemma', 'lean'))
        else:
            out.append(Verdict(f'lean:{fn}', 'L', 'discharged', f'accepted by Lean 4.33 (compiled by setup, source hash matches stamp, {stamp[fn].get("seconds")}s)', 0,
                               f'lemmas/{fn}', 'lemma', 'lean'))
    return out


def verify(prop, tier='quick'):
    out = []
    for lm in LEMMAS:
        if prop not in lm['props']:
            continue
        t0 = time.time()
        try:
            ok, detail = lm['f']()
            status = 'discharged' if ok else 'refuted'
        except Refuted as e:
            status, detail = 'refuted', str(e)
        except (Unsupported, NotImplementedError, T.ShapeError) as e:
            status, detail = 'undecided', f'outside fragment: {e}'
        v = Verdict(lm['name'], 'T', status, f'{detail} [hypothesis of {lm["lean"]}]', time.time() - t0, ', '.join(lm['uses']), 'lemma', 'T')
        v.confirm = [u.split('.')[-1] for u in lm['uses']]
        if status == 'refuted':
            v.detail = str(v.detail) + ' (needs native confirmation: the lemma, not a postcondition, failed)'
        out.append(v)
    out += lean_verdicts(prop, tier)
    return out
