"""Behaviour-preserving refactorings produced by independent sub-agents (/verif/benign/<name>/patch.diff): apply each to a scratch copy
of pytenet, run the registered quick checks of the properties anchored in the touched files; every check must exit 0 (undecided
obligations are fine, a VIOLATION would be a false alarm).  Usage: python3-vt -m vt.bentest [name ...]"""
import json, os, shutil, subprocess, sys, tempfile, re, concurrent.futures as cf
from . import selftest
MAP = {'bond_ops.py': ['C01', 'C02', 'C11', 'C12', 'C13', 'C08', 'C03'], 'qnumber.py': ['C02', 'C11', 'C19', 'C03'], 'krylov.py': ['C14', 'C15', 'C08', 'C10', 'C09'],
       'mps.py': ['C01', 'C02', 'C03', 'C13', 'C19', 'C04'], 'mpo.py': ['C01', 'C02', 'C03', 'C05', 'C19', 'C06'], 'operation.py': ['C04', 'C03', 'C08', 'C10', 'C09'],
       'evolution.py': ['C08', 'C09', 'C02', 'C19'], 'minimization.py': ['C10', 'C02', 'C19'], 'opgraph.py': ['C05', 'C16', 'C17', 'C19', 'C20', 'C06', 'C07'],
       'opchain.py': ['C05', 'C20', 'C19'], 'optree.py': ['C17', 'C19'], 'autop.py': ['C17', 'C06'], 'bipartite_graph.py': ['C18', 'C05', 'C20'],
       'hamiltonian.py': ['C06', 'C07', 'C20', 'C05'], 'util.py': ['C02']}
def run(path):
    name = os.path.basename(path)
    patch = open(os.path.join(path, 'patch.diff')).read()
    files = sorted(set(re.findall(r'^\+\+\+ b/pytenet/(\S+)', patch, re.M)))
    props = sorted({p for f in files for p in MAP.get(f, [])})
    base = tempfile.mkdtemp(prefix='vtben_', dir='/dev/shm')
    try:
        selftest._copy_repo(base)
        r = subprocess.run(['patch', '-p1', '-s', '-d', base, '-i', os.path.join(path, 'patch.diff')], capture_output=True, text=True)
        if r.returncode != 0:
            return dict(id=name, error='patch does not apply: ' + (r.stdout + r.stderr)[-200:])
        out = {}
        for pid in props:
            env = dict(os.environ, VT_REPO=base, VT_NO_EVIDENCE='1')
            rr = subprocess.run(['python3-vt', '-m', 'vt.cli', 'check', pid, '--tier', 'quick'], cwd='/verif', env=env, capture_output=True, text=True)
            lines = rr.stdout.splitlines()
            out[pid] = dict(rc=rr.returncode, violations=[l[:300] for l in lines if l.startswith('VIOLATION') or l.startswith('CHECKER-BROKEN')][:4],
                            undecided=len([l for l in lines if l.startswith('UNDECIDED')]), summary=[l for l in lines if ' deductive: ' in l][-1:])
        return dict(id=name, files=files, results=out)
    finally:
        shutil.rmtree(base, ignore_errors=True)
if __name__ == '__main__':
    d = os.path.join(os.path.dirname(os.path.dirname(os.path.abspath(__file__))), 'benign')
    names = sys.argv[1:] or sorted(n for n in os.listdir(d) if os.path.exists(os.path.join(d, n, 'patch.diff')))
    paths = [os.path.join(d, n) for n in names]
    nbad = 0
    with cf.ThreadPoolExecutor(3) as ex:
        for r in ex.map(run, paths):
            bad = {p: v for p, v in r.get('results', {}).items() if v['rc'] != 0}
            nbad += bool(bad) or bool(r.get('error'))
            print(json.dumps(dict(id=r['id'], files=r.get('files'), error=r.get('error'), alarms=bad, ok=[p for p, v in r.get('results', {}).items() if v['rc'] == 0],
                                  undecided={p: v['undecided'] for p, v in r.get('results', {}).items()})), flush=True)
    sys.exit(1 if nbad else 0)
